#!/usr/bin/env python3
"""pyvc: contract-based deductive verification of (a subset of) Python, the second front end of /verif.

Reads the REAL source file with `ast`, reads the contracts from the `#@` lines of a comment-only file next to it,
symbolically executes every method under contract (all paths, exceptions included), and discharges one SMT query per
obligation with z3 (Python API). Same interface as govc: FAILED / VIOLATION lines, exit 1 on a violation, exit 2 on a
tool error, evidence JSON with the obligations actually discharged on this run.

Subset (checked, a construct outside it is a TOOL-ERROR, never skipped): assignments to locals and to self.<field>,
augmented assignment, if/elif/else, return, raise, try/except, expression statements, pass; expressions: constants,
names, self.<field>, comparisons (incl. is / is not / in / not in), and / or / not (with Python's value semantics for
`x or default`), + - *, calls of methods of the same class (inlined), calls of declared externs (trusted contracts),
calls on the logger and f-strings (no effect, opaque value). No loops (methods with loops cannot be put under contract).
Integers are mathematical, floats are reals.
"""
import ast, json, os, re, sys, time
import z3

# ----------------------------------------------------------------------------------------------------------------------
# contracts

class Extern:
    def __init__(self, name):
        self.name = name; self.ret = 'opaque'; self.raises = []   # [(kind, unless_expr or None)]
        self.ensures = []; self.pure = True; self.args = []; self.time = False; self.sets = []

class MethodContract:
    def __init__(self, cls, name):
        self.cls = cls; self.name = name; self.props = []; self.params = {}; self.requires = []; self.ensures = []
        self.noraise = None; self.line = 0; self.raises_only = None

class ClassSpec:
    def __init__(self, name):
        self.name = name; self.fields = {}; self.invariants = []; self.methods = {}

def desugar(s):
    """A ==> B and A <==> B (lowest precedence, right associative) become implies(A, B) / iff(A, B)."""
    def split_top(s, op):
        d = 0; i = 0
        while i < len(s):
            c = s[i]
            if c in '([{': d += 1
            elif c in ')]}': d -= 1
            elif d == 0 and s.startswith(op, i) and (op != '==>' or not s.startswith('<==>', i - 1)):
                return s[:i], s[i + len(op):]
            i += 1
        return None
    r = split_top(s, '<==>')
    if r: return 'iff(%s, %s)' % (desugar(r[0].strip()), desugar(r[1].strip()))
    r = split_top(s, '==>')
    if r: return 'implies(%s, %s)' % (desugar(r[0].strip()), desugar(r[1].strip()))
    return s

def parse_contracts(path):
    classes, externs, consts = {}, {}, {}
    cur = None; curk = None; module = None
    for ln, raw in enumerate(open(path), 1):
        m = re.match(r'\s*#@ ?(.*)$', raw.rstrip('\n'))
        if not m: continue
        line = m.group(1)
        if not line.strip(): continue
        indented = line.startswith('  ')
        words = line.split()
        kw = words[0]
        rest = line.strip()[len(kw):].strip()
        lab = None
        ml = re.match(r'([\w-]+)\[([^\]]+)\]\s*(.*)$', line.strip())
        if ml: kw, lab, rest = ml.group(1), ml.group(2), ml.group(3)
        if not indented:
            if kw == 'module': module = rest; cur = None
            elif kw == 'class': cur = classes.setdefault(rest, ClassSpec(rest)); curk = 'class'
            elif kw == 'method':
                c, mname = rest.split('.', 1)
                cs = classes.setdefault(c, ClassSpec(c))
                cur = cs.methods[mname] = MethodContract(c, mname); cur.line = ln; curk = 'method'
            elif kw == 'extern': cur = externs[rest] = Extern(rest); curk = 'extern'
            elif kw == 'const':
                n, v = rest.split('=', 1); consts[n.strip()] = v.strip(); cur = None
            else: raise SystemExit('%s:%d: unknown declaration %r' % (path, ln, kw))
            continue
        if cur is None: raise SystemExit('%s:%d: clause outside a declaration' % (path, ln))
        if curk == 'class':
            if kw == 'field':
                n, t = rest.split(':'); cur.fields[n.strip()] = t.strip()
            elif kw == 'invariant': cur.invariants.append((lab or 'inv%d' % ln, rest, ln))
            else: raise SystemExit('%s:%d: unknown class clause %r' % (path, ln, kw))
        elif curk == 'method':
            if kw == 'prop': cur.props += [p.strip() for p in rest.split(',')]
            elif kw == 'param':
                n, t = rest.split(':'); cur.params[n.strip()] = t.strip()
            elif kw == 'requires': cur.requires.append((lab or 'req%d' % ln, rest, ln))
            elif kw == 'ensures': cur.ensures.append((lab or 'ens%d' % ln, rest, ln))
            elif kw == 'never-raises': cur.noraise = (lab or 'never-raises', ln)
            elif kw == 'raises-only': cur.raises_only = (lab or 'raises-only', [k.strip() for k in rest.split(',')], ln)
            else: raise SystemExit('%s:%d: unknown method clause %r' % (path, ln, kw))
        elif curk == 'extern':
            if kw == 'returns': cur.ret = rest
            elif kw == 'raises':
                mm = re.match(r'(\w+)(?:\s+unless\s+(.*))?$', rest); cur.raises.append((mm.group(1), mm.group(2)))
            elif kw == 'ensures': cur.ensures.append(rest)
            elif kw == 'args': cur.args = [a.strip() for a in rest.split(',')]
            elif kw == 'clock': cur.time = True
            elif kw == 'sets':
                n, v = rest.split('=', 1); cur.sets.append((n.strip(), v.strip()))
            else: raise SystemExit('%s:%d: unknown extern clause %r' % (path, ln, kw))
    return module, classes, externs, consts

# ----------------------------------------------------------------------------------------------------------------------
# symbolic values

Str = z3.DeclareSort('Str')
Obj = z3.DeclareSort('Obj')

class Opt:
    """Optional value: (is_none: Bool, value)"""
    def __init__(self, none, val): self.none = none; self.val = val

def sort_of(t):
    t = t.strip()
    if t == 'int': return z3.IntSort()
    if t == 'bool': return z3.BoolSort()
    if t in ('real', 'float'): return z3.RealSort()
    if t == 'str': return Str
    return Obj

fresh_n = [0]
def fresh(name, t):
    fresh_n[0] += 1
    n = '%s@%d' % (name, fresh_n[0])
    if t.startswith('optional '):
        inner = t[len('optional '):]
        return Opt(z3.Bool(n + '!none'), z3.Const(n, sort_of(inner)))
    return z3.Const(n, sort_of(t))

def ite(c, a, b):
    if isinstance(a, Opt) or isinstance(b, Opt):
        a = a if isinstance(a, Opt) else Opt(z3.BoolVal(False), a)
        b = b if isinstance(b, Opt) else Opt(z3.BoolVal(False), b)
        av, bv = unify(a.val, b.val)
        return Opt(z3.If(c, a.none, b.none), z3.If(c, av, bv))
    a, b = unify(a, b)
    return z3.If(c, a, b)

def unify(a, b):
    if z3.is_int(a) and z3.is_real(b): a = z3.ToReal(a)
    if z3.is_real(a) and z3.is_int(b): b = z3.ToReal(b)
    return a, b

NONE = Opt(z3.BoolVal(True), z3.IntVal(0))

class ToolError(Exception): pass

class State:
    def __init__(self, fields, locs, pc, now):
        self.fields = dict(fields); self.locs = dict(locs); self.pc = list(pc); self.now = now
    def clone(self): return State(self.fields, self.locs, self.pc, self.now)

class Outcome:
    def __init__(self, st, kind, val=None, exc=None): self.st = st; self.kind = kind; self.val = val; self.exc = exc

# ----------------------------------------------------------------------------------------------------------------------
class Exec:
    def __init__(self, tree, src_path, classes, externs, consts):
        self.tree = tree; self.src = src_path; self.classes = classes; self.externs = externs; self.consts = consts
        self.methods = {}
        for node in tree.body:
            if isinstance(node, ast.ClassDef):
                for f in node.body:
                    if isinstance(f, (ast.FunctionDef, ast.AsyncFunctionDef)):
                        self.methods[(node.name, f.name)] = f
                        # a function defined inside a method (a hook closure): "method.inner"; `self` is the enclosing one
                        for g in ast.walk(f):
                            if g is not f and isinstance(g, (ast.FunctionDef, ast.AsyncFunctionDef)):
                                self.methods[(node.name, f.name + '.' + g.name)] = g
        self.ufs = {}
        self.notes = set(); self.trusted = set(); self.inlined = set()

    def uf(self, name, *sorts):
        if name not in self.ufs: self.ufs[name] = z3.Function(name, *sorts)
        return self.ufs[name]

    # ---- truthiness and coercions
    def truth(self, v):
        if isinstance(v, Opt):
            inner = z3.BoolVal(True)
            if z3.is_bool(v.val): inner = v.val
            elif z3.is_int(v.val) or z3.is_real(v.val): inner = v.val != 0
            elif v.val.sort() == Str: inner = z3.Not(self.uf('str_empty', Str, z3.BoolSort())(v.val))
            elif v.val.sort() == Obj: inner = self.uf('obj_truthy', Obj, z3.BoolSort())(v.val)
            return z3.And(z3.Not(v.none), inner)
        if z3.is_bool(v): return v
        if z3.is_int(v) or z3.is_real(v): return v != 0
        if v.sort() == Str: return z3.Not(self.uf('str_empty', Str, z3.BoolSort())(v))
        if v.sort() == Obj: return self.uf('obj_truthy', Obj, z3.BoolSort())(v)
        raise ToolError('truthiness of %s' % v.sort())

    def is_none(self, v):
        return v.none if isinstance(v, Opt) else z3.BoolVal(False)

    def strlit(self, s):
        c = z3.Const('strlit!' + re.sub(r'\W', '_', s) + '!%d' % (hash(s) % 100000), Str)
        if not hasattr(self, 'lits'): self.lits = {}
        self.lits[s] = c
        return c

    def module_names(self):
        if not hasattr(self, '_modnames'):
            names = set()
            for n in self.tree.body:
                if isinstance(n, (ast.Import, ast.ImportFrom)):
                    for a in n.names: names.add((a.asname or a.name).split('.')[0])
                elif isinstance(n, ast.Assign):
                    for t in n.targets:
                        if isinstance(t, ast.Name): names.add(t.id)
                elif isinstance(n, ast.AnnAssign) and isinstance(n.target, ast.Name):
                    names.add(n.target.id)
                elif isinstance(n, (ast.FunctionDef, ast.AsyncFunctionDef)):
                    names.add(n.name)
            self._modnames = names
        return self._modnames

    # ---- expressions; returns list of (state, value-or-None, exc-or-None)
    def expr(self, e, st, cls, spec=None):
        """spec: dict with 'old' (State), 'result', 'raised' for contract expressions; code otherwise"""
        R = lambda v: [(st, v, None)]
        if isinstance(e, ast.Constant):
            v = e.value
            if v is None: return R(NONE)
            if isinstance(v, bool): return R(z3.BoolVal(v))
            if isinstance(v, int): return R(z3.IntVal(v))
            if isinstance(v, float): return R(z3.RealVal(v))
            if isinstance(v, str): return R(self.strlit(v))
            raise ToolError('constant %r' % (v,))
        if isinstance(e, ast.JoinedStr): return R(z3.Const('fstring', Obj))
        if isinstance(e, (ast.Dict, ast.List, ast.Tuple, ast.Set)): return R(z3.Const('literal@%d' % id(e), Obj))
        if isinstance(e, ast.Starred): return R(z3.Const('starred@%d' % id(e), Obj))
        if isinstance(e, ast.Name):
            if spec is not None:
                if e.id == 'result': return R(spec['result'])
                if e.id == 'now': return R(st.now)
                if e.id == 'True': return R(z3.BoolVal(True))
            if e.id in st.locs: return R(st.locs[e.id])
            if e.id in self.consts:
                return self.expr(ast.parse(self.consts[e.id], mode='eval').body, st, cls, spec)
            if any(isinstance(n, ast.ClassDef) and n.name == e.id for n in self.tree.body):
                return R(z3.Const('class!' + e.id, Obj))   # a class object of the module
            if e.id in self.module_names():
                # a module-level binding that no contract describes (an imported table, a module constant): an opaque
                # value, the same one at every use (module bindings are assumed not to be rebound at run time)
                return R(z3.Const('module!' + e.id, Obj))
            raise ToolError('%s:%d: unknown name %s' % (self.src, getattr(e, 'lineno', 0), e.id))
        if isinstance(e, ast.Attribute):
            if isinstance(e.value, ast.Name) and e.value.id == 'self':
                if e.attr in st.fields: return R(st.fields[e.attr])
                if e.attr == '_logger': return R(z3.Const('logger', Obj))
                # property of the same class: inline its getter
                if (cls, e.attr) in self.methods and spec is None:
                    return self.call_method(cls, e.attr, [], {}, st)
                raise ToolError('%s:%d: field self.%s is not declared in the contracts' % (self.src, e.lineno, e.attr))
            out = []
            for s1, base, x in self.expr(e.value, st, cls, spec):
                if x is not None: out.append((s1, None, x)); continue
                bv = base.val if isinstance(base, Opt) else base
                if bv.sort() != Obj: raise ToolError('%s:%d: attribute %s of a non-object' % (self.src, e.lineno, ast.unparse(e)))
                ext = self.externs.get('.' + e.attr)
                rt = ext.ret if ext is not None else 'opaque'
                if ext is not None: self.trusted.add('extern .%s (trusted: a deterministic observer of the object)' % e.attr)
                fn = self.uf('attr!%s!%s' % (e.attr, rt.replace(' ', '_')), Obj, sort_of(rt))
                out.append((s1, fn(bv), None))
            return out
        if isinstance(e, ast.UnaryOp):
            out = []
            for s1, v, x in self.expr(e.operand, st, cls, spec):
                if x is not None: out.append((s1, None, x)); continue
                if isinstance(e.op, ast.Not): out.append((s1, z3.Not(self.truth(v)), None))
                elif isinstance(e.op, ast.USub): out.append((s1, -v, None))
                else: raise ToolError('unary %s' % ast.dump(e.op))
            return out
        if isinstance(e, ast.BoolOp):
            if spec is not None:
                # in contracts `and` / `or` are the logical connectives
                vals = []
                for sub in e.values:
                    (_, v, _), = self.expr(sub, st, cls, spec)
                    vals.append(self.truth(v))
                return R(z3.And(*vals) if isinstance(e.op, ast.And) else z3.Or(*vals))
            # Python value semantics: a or b -> a if truthy(a) else b ; a and b -> b if truthy(a) else a (short circuit)
            res = self.expr(e.values[0], st, cls, spec)
            for nxt in e.values[1:]:
                new = []
                for s1, v, x in res:
                    if x is not None: new.append((s1, None, x)); continue
                    t = self.truth(v)
                    cond_eval_next = z3.Not(t) if isinstance(e.op, ast.Or) else t
                    sn = s1.clone(); sn.pc.append(cond_eval_next)
                    sk = s1.clone(); sk.pc.append(z3.Not(cond_eval_next))
                    new.append((sk, v, None))
                    for s2, v2, x2 in self.expr(nxt, sn, cls, spec):
                        new.append((s2, v2, x2))
                res = new
            return res
        if isinstance(e, ast.BinOp):
            out = []
            for s1, a, x in self.expr(e.left, st, cls, spec):
                if x is not None: out.append((s1, None, x)); continue
                for s2, b, x2 in self.expr(e.right, s1, cls, spec):
                    if x2 is not None: out.append((s2, None, x2)); continue
                    if isinstance(a, Opt) or isinstance(b, Opt): raise ToolError('arithmetic on optional')
                    if isinstance(e.op, ast.Add) and a.sort() == Obj:  # tuple concatenation etc: opaque
                        out.append((s2, self.uf('obj_add', Obj, Obj, Obj)(a, b), None)); continue
                    a2, b2 = unify(a, b)
                    if isinstance(e.op, ast.Add): out.append((s2, a2 + b2, None))
                    elif isinstance(e.op, ast.Sub): out.append((s2, a2 - b2, None))
                    elif isinstance(e.op, ast.Mult): out.append((s2, a2 * b2, None))
                    else: raise ToolError('binary %s' % ast.dump(e.op))
            return out
        if isinstance(e, ast.Compare):
            if len(e.ops) != 1: raise ToolError('chained comparison')
            op = e.ops[0]; out = []
            for s1, a, x in self.expr(e.left, st, cls, spec):
                if x is not None: out.append((s1, None, x)); continue
                for s2, b, x2 in self.expr(e.comparators[0], s1, cls, spec):
                    if x2 is not None: out.append((s2, None, x2)); continue
                    out.append((s2, self.compare(op, a, b), None))
            return out
        if isinstance(e, ast.Subscript):
            out = []
            for s1, a, x in self.expr(e.value, st, cls, spec):
                if x is not None: out.append((s1, None, x)); continue
                out.append((s1, z3.Const('subscript@%d' % id(e), Str if (not isinstance(a, Opt) and a.sort() == Str) else Obj), None))
            return out
        if isinstance(e, ast.Call):
            return self.call(e, st, cls, spec)
        if isinstance(e, ast.IfExp):
            out = []
            for s1, c, x in self.expr(e.test, st, cls, spec):
                if x is not None: out.append((s1, None, x)); continue
                t = self.truth(c)
                sa = s1.clone(); sa.pc.append(t); sb = s1.clone(); sb.pc.append(z3.Not(t))
                out += self.expr(e.body, sa, cls, spec) + self.expr(e.orelse, sb, cls, spec)
            return out
        raise ToolError('%s:%d: expression %s is outside the subset' % (self.src, getattr(e, 'lineno', 0), type(e).__name__))

    def compare(self, op, a, b):
        if isinstance(op, (ast.Is, ast.IsNot, ast.Eq, ast.NotEq)):
            if isinstance(a, Opt) or isinstance(b, Opt):
                an, bn = self.is_none(a), self.is_none(b)
                av = a.val if isinstance(a, Opt) else a
                bv = b.val if isinstance(b, Opt) else b
                if a is NONE or b is NONE: eq = z3.And(an, bn)
                else:
                    av, bv = unify(av, bv) if av.sort() != bv.sort() and (z3.is_arith(av) and z3.is_arith(bv)) else (av, bv)
                    same = av == bv if av.sort() == bv.sort() else z3.BoolVal(False)
                    eq = z3.Or(z3.And(an, bn), z3.And(z3.Not(an), z3.Not(bn), same))
            else:
                if a.sort() != b.sort():
                    if z3.is_arith(a) and z3.is_arith(b): a, b = unify(a, b)
                    else: raise ToolError('comparison of %s and %s' % (a.sort(), b.sort()))
                eq = a == b
            return eq if isinstance(op, (ast.Is, ast.Eq)) else z3.Not(eq)
        if isinstance(op, (ast.In, ast.NotIn)):
            bv = b.val if isinstance(b, Opt) else b
            av = a.val if isinstance(a, Opt) else a
            f = self.uf('contains!%s!%s' % (bv.sort(), av.sort()), bv.sort(), av.sort(), z3.BoolSort())
            r = f(bv, av)
            return r if isinstance(op, ast.In) else z3.Not(r)
        if isinstance(a, Opt) or isinstance(b, Opt): raise ToolError('ordering on optional')
        a, b = unify(a, b)
        if isinstance(op, ast.Lt): return a < b
        if isinstance(op, ast.LtE): return a <= b
        if isinstance(op, ast.Gt): return a > b
        if isinstance(op, ast.GtE): return a >= b
        raise ToolError('comparison %s' % ast.dump(op))

    # ---- calls
    def call(self, e, st, cls, spec):
        f = e.func
        # spec builtins
        if spec is not None and isinstance(f, ast.Name):
            if f.id in ('implies', 'iff'):
                (s1, a, _), = self.expr(e.args[0], st, cls, spec); (s2, b, _), = self.expr(e.args[1], st, cls, spec)
                a, b = self.truth(a), self.truth(b)
                return [(st, z3.Implies(a, b) if f.id == 'implies' else a == b, None)]
            if f.id == 'old':
                (s1, v, _), = self.expr(e.args[0], spec['old'], cls, dict(spec, old=spec['old']))
                return [(st, v, None)]
            if f.id == 'raised':
                kind = e.args[0].id if e.args else None
                if spec['raised'] is None: return [(st, z3.BoolVal(False), None)]
                return [(st, z3.BoolVal(kind is None or spec['raised'] == kind), None)]
            if f.id == 'returned': return [(st, z3.BoolVal(spec['raised'] is None), None)]
            if f.id == 'is_none':
                (s1, v, _), = self.expr(e.args[0], st, cls, spec); return [(st, self.is_none(v), None)]
        name = None
        if isinstance(f, ast.Name): name = f.id
        elif isinstance(f, ast.Attribute): name = ast.unparse(f)
        # logging and formatting: no effect
        if name in ('str', 'repr') and len(e.args) == 1 and not e.keywords:
            # str(x): a deterministic function of x (the same term in code and in contracts)
            out = []
            for s1, v, x in self.expr(e.args[0], st, cls, spec):
                if x is not None: out.append((s1, None, x)); continue
                vv = v.val if isinstance(v, Opt) else v
                out.append((s1, self.uf('py_str!%s' % vv.sort(), vv.sort(), Obj)(vv), None))
            return out
        if name and (name.startswith('self._logger.') or name in ('str', 'tb.format_tb', 'repr')):
            return [(st, z3.Const('opaque@%d' % id(e), Obj), None)]
        # evaluate arguments left to right
        def eval_args(st0, args):
            res = [(st0, [], None)]
            for a in args:
                nxt = []
                for s1, vs, x in res:
                    if x is not None: nxt.append((s1, vs, x)); continue
                    for s2, v, x2 in self.expr(a, s1, cls, spec):
                        nxt.append((s2, vs + [v], x2))
                res = nxt
            return res
        args = list(e.args) + [k.value for k in e.keywords]
        # method of the same class (unless the contracts declare it as an extern: then its contract is used, not its body)
        if isinstance(f, ast.Attribute) and isinstance(f.value, ast.Name) and f.value.id == 'self' and (cls, f.attr) in self.methods and name not in self.externs:
            out = []
            for s1, vs, x in eval_args(st, args):
                if x is not None: out.append((s1, None, x)); continue
                out += self.call_method(cls, f.attr, vs, {}, s1)
            return out
        # declared extern
        key = name
        if key not in self.externs and isinstance(f, ast.Attribute): key = '.' + f.attr   # method of an opaque object
        if key in self.externs:
            ex = self.externs[key]
            self.trusted.add('extern %s (trusted contract)' % ex.name)
            out = []
            recv_args = [f.value] if key.startswith('.') else []
            for s1, vs, x in eval_args(st, recv_args + args):
                if x is not None: out.append((s1, None, x)); continue
                env = State(s1.fields, dict(s1.locs), s1.pc, s1.now)
                for n, v in zip(ex.args, vs): env.locs[n] = v
                # ghost effects (`sets`): the call was made, whether it returns or raises
                if ex.sets:
                    s1 = s1.clone(); s1.fields = dict(s1.fields)
                    for fld, ex_text in ex.sets:
                        (sx, u, _), = self.expr(ast.parse(desugar(ex_text), mode='eval').body, env, cls, {'old': env, 'result': None, 'raised': None})
                        s1.fields[fld] = u
                # exceptional outcomes
                normal_pc = []
                for kind, unless in ex.raises:
                    if unless is None:
                        c = z3.Bool('raises_%s@%d' % (kind, id(e)) + '!%d' % len(out)); cond_ok = z3.Not(c)
                    else:
                        (sx, u, _), = self.expr(ast.parse(desugar(unless), mode='eval').body, env, cls, {'old': env, 'result': None, 'raised': None})
                        cond_ok = self.truth(u)
                    sr = s1.clone(); sr.pc += normal_pc + [z3.Not(cond_ok)]
                    out.append((sr, None, kind))
                    normal_pc.append(cond_ok)
                sn = s1.clone(); sn.pc += normal_pc
                if ex.time:
                    t2 = z3.Real('now@%d' % (fresh_n[0] + 1)); fresh_n[0] += 1
                    sn.pc.append(t2 >= sn.now); sn.now = t2; res = t2
                else:
                    res = fresh('res_' + re.sub(r'\W', '_', ex.name), ex.ret)
                    if ex.pure and vs and not ex.ret.startswith('optional'):
                        flat = []
                        for v in vs:
                            if isinstance(v, Opt): flat += [v.none, v.val]
                            else: flat.append(v)
                        fn = self.uf('ext!' + ex.name + '!' + '_'.join(str(v.sort()) for v in flat), *([v.sort() for v in flat] + [sort_of(ex.ret)]))
                        res = fn(*flat)
                env2 = State(sn.fields, dict(env.locs), sn.pc, sn.now)
                for en in ex.ensures:
                    (sx, u, _), = self.expr(ast.parse(desugar(en), mode='eval').body, env2, cls, {'old': env, 'result': res, 'raised': None})
                    sn.pc.append(self.truth(u))
                out.append((sn, res, None))
            return out
        # mapping.get(key[, default]) on an opaque mapping: the stored value when the key is present (the same `in` predicate
        # the `key in mapping` test uses), otherwise the default (None without one)
        if isinstance(f, ast.Attribute) and f.attr == 'get' and 1 <= len(args) <= 2 and not e.keywords:
            out = []
            for s1, vs, x in eval_args(st, [f.value] + args):
                if x is not None: out.append((s1, None, x)); continue
                m = vs[0].val if isinstance(vs[0], Opt) else vs[0]
                k = vs[1].val if isinstance(vs[1], Opt) else vs[1]
                has = self.uf('contains!%s!%s' % (m.sort(), k.sort()), m.sort(), k.sort(), z3.BoolSort())(m, k)
                dflt = vs[2] if len(vs) > 2 else NONE
                dv = dflt.val if isinstance(dflt, Opt) else dflt
                rs = dv.sort() if (len(vs) > 2 and dflt is not NONE) else Obj
                item = self.uf('getitem!%s!%s!%s' % (m.sort(), k.sort(), rs), m.sort(), k.sort(), rs)(m, k)
                dnone = dflt.none if isinstance(dflt, Opt) else z3.BoolVal(False)
                val = z3.If(has, item, dv) if dv.sort() == rs else item
                out.append((s1, Opt(z3.And(z3.Not(has), dnone), val), None))
            self.trusted.add('mapping.get(key, default) on an opaque mapping: the stored value if `key in mapping`, else the default')
            return out
        raise ToolError('%s:%d: call of %s: not a method of the class and not a declared extern' % (self.src, e.lineno, name))

    def call_method(self, cls, mname, argvals, kw, st, depth=[0]):
        fdef = self.methods[(cls, mname)]
        self.inlined.add('%s.%s' % (cls, mname))
        depth[0] += 1
        if depth[0] > 12: raise ToolError('recursion while inlining %s.%s' % (cls, mname))
        saved = st.locs
        st = st.clone(); st.locs = {}
        params = [a.arg for a in fdef.args.args if a.arg != 'self']
        for n, v in zip(params, argvals): st.locs[n] = v
        out = []
        for oc in self.block(fdef.body, st, cls):
            s2 = oc.st.clone(); s2.locs = dict(saved)
            if oc.kind == 'raise': out.append((s2, None, oc.exc))
            else: out.append((s2, oc.val if oc.kind == 'return' and oc.val is not None else NONE, None))
        depth[0] -= 1
        return out

    # ---- statements: returns list of Outcome
    def block(self, stmts, st, cls):
        live = [st]; done = []
        for s in stmts:
            nxt = []
            for st1 in live:
                for oc in self.stmt(s, st1, cls):
                    if oc.kind == 'normal': nxt.append(oc.st)
                    else: done.append(oc)
            live = nxt
        return done + [Outcome(s, 'normal') for s in live]

    def stmt(self, s, st, cls):
        if isinstance(s, ast.Expr):
            if isinstance(s.value, ast.Constant): return [Outcome(st, 'normal')]   # docstring
            return [Outcome(s1, 'raise', exc=x) if x is not None else Outcome(s1, 'normal') for s1, v, x in self.expr(s.value, st, cls)]
        if isinstance(s, ast.Pass): return [Outcome(st, 'normal')]
        if isinstance(s, (ast.Assign, ast.AnnAssign, ast.AugAssign)):
            tgt = s.targets[0] if isinstance(s, ast.Assign) else s.target
            val = s.value
            if isinstance(s, ast.AugAssign): val = ast.BinOp(left=tgt, op=s.op, right=s.value)
            out = []
            for s1, v, x in self.expr(val, st, cls):
                if x is not None: out.append(Outcome(s1, 'raise', exc=x)); continue
                s2 = s1.clone()
                if isinstance(tgt, ast.Name): s2.locs[tgt.id] = v
                elif isinstance(tgt, ast.Attribute) and isinstance(tgt.value, ast.Name) and tgt.value.id == 'self':
                    if tgt.attr not in s2.fields: raise ToolError('%s:%d: assignment to undeclared field self.%s' % (self.src, s.lineno, tgt.attr))
                    old = s2.fields[tgt.attr]
                    if isinstance(old, Opt) and not isinstance(v, Opt): v = Opt(z3.BoolVal(False), v)
                    if not isinstance(old, Opt) and not isinstance(v, Opt) and z3.is_real(old) and z3.is_int(v): v = z3.ToReal(v)
                    s2.fields[tgt.attr] = v
                elif isinstance(tgt, ast.Subscript):
                    self.notes.add('store into %s: not modelled (the container is read through trusted externs only)' % ast.unparse(tgt.value))
                else: raise ToolError('%s:%d: assignment target %s' % (self.src, s.lineno, ast.unparse(tgt)))
                out.append(Outcome(s2, 'normal'))
            return out
        if isinstance(s, ast.If):
            out = []
            for s1, c, x in self.expr(s.test, st, cls):
                if x is not None: out.append(Outcome(s1, 'raise', exc=x)); continue
                t = self.truth(c)
                sa = s1.clone(); sa.pc.append(t); sb = s1.clone(); sb.pc.append(z3.Not(t))
                out += self.block(s.body, sa, cls) + self.block(s.orelse, sb, cls)
            return out
        if isinstance(s, ast.Return):
            if s.value is None: return [Outcome(st, 'return', NONE)]
            return [Outcome(s1, 'raise', exc=x) if x is not None else Outcome(s1, 'return', v) for s1, v, x in self.expr(s.value, st, cls)]
        if isinstance(s, ast.Raise):
            kind = 'Exception'
            if isinstance(s.exc, ast.Call) and isinstance(s.exc.func, ast.Name): kind = s.exc.func.id
            elif isinstance(s.exc, ast.Name): kind = s.exc.id
            return [Outcome(st, 'raise', exc=kind)]
        if isinstance(s, ast.With):
            # `with cm:` - __enter__ has no effect here; an exception raised in the body is swallowed iff cm.__exit__ says so
            # (an uninterpreted predicate of the manager and the exception kind: the manager's own contract is proved elsewhere)
            out = []
            cms = []
            for item in s.items:
                (s1, cm, x), = self.expr(item.context_expr, st, cls)
                cms.append(cm.val if isinstance(cm, Opt) else cm)
            for oc in self.block(s.body, st, cls):
                if oc.kind != 'raise': out.append(oc); continue
                sw = z3.Or(*[self.uf('cm_swallows', Obj, Str, z3.BoolSort())(cm, self.strlit(oc.exc)) for cm in cms])
                s_sw = oc.st.clone(); s_sw.pc.append(sw); out.append(Outcome(s_sw, 'normal'))
                s_re = oc.st.clone(); s_re.pc.append(z3.Not(sw)); out.append(Outcome(s_re, 'raise', exc=oc.exc))
            return out
        if isinstance(s, ast.Try):
            if s.finalbody or s.orelse: raise ToolError('%s:%d: try/finally or try/else' % (self.src, s.lineno))
            out = []
            for oc in self.block(s.body, st, cls):
                if oc.kind != 'raise': out.append(oc); continue
                handled = False
                for h in s.handlers:
                    kinds = None
                    if h.type is not None:
                        kinds = [ast.unparse(h.type)] if not isinstance(h.type, ast.Tuple) else [ast.unparse(t) for t in h.type.elts]
                    if kinds is None or oc.exc in kinds or 'Exception' in kinds or 'BaseException' in kinds or any(self.consts.get('subclass:' + oc.exc) == k for k in kinds):
                        s2 = oc.st.clone()
                        if h.name: s2.locs[h.name] = z3.Const('exc@%d' % id(h), Obj)
                        out += self.block(h.body, s2, cls); handled = True; break
                if not handled: out.append(oc)
            return out
        raise ToolError('%s:%d: statement %s is outside the subset' % (self.src, s.lineno, type(s).__name__))

# ----------------------------------------------------------------------------------------------------------------------
def solve(hyps, goal, timeout_ms):
    s = z3.Solver(); s.set('timeout', timeout_ms)
    for h in hyps: s.add(h)
    s.add(z3.Not(goal))
    t0 = time.time(); r = s.check(); dt = time.time() - t0
    model = None
    if r == z3.sat:
        m = s.model(); model = {str(d): str(m[d]) for d in m.decls() if '!' not in str(d) or '@' in str(d)}
    return str(r), dt, model, s.to_smt2()

def main():
    import argparse
    ap = argparse.ArgumentParser()
    ap.add_argument('cmd'); ap.add_argument('-prop', required=True); ap.add_argument('-tier', default='quick')
    ap.add_argument('-timeout', type=int, default=0); ap.add_argument('-known', default=None)
    ap.add_argument('-no-evidence', action='store_true', dest='noev'); ap.add_argument('-v', action='store_true')
    a = ap.parse_args()
    V = '/verif'
    cfg = json.load(open('%s/props/%s.json' % (V, a.prop)))
    a.prop = cfg.get('id', a.prop)  # a scratch props file (props/X19.json) may carry the id of the property it stands in for
    repo = os.environ.get('GOVC_REPO', '/repo')
    out_root = os.environ.get('GOVC_OUT', V + '/out')
    to = a.timeout or (30 if a.tier == 'quick' else 120)
    known_path = a.known or V + '/known_findings.txt'
    known = {}
    if os.path.exists(known_path):
        for l in open(known_path):
            m = re.match(r'finding: property=(\S+) obligation=(\S+) what="([^"]*)"', l)
            if m and m.group(1) == a.prop: known[m.group(2)] = m.group(3)
    t0 = time.time()
    obs = []; funcs = []; tool_errors = []; violations = []; known_hits = []; trusted = set(); notes = set()
    vc_dir = '%s/vc/%s' % (out_root, a.prop); rp_dir = '%s/replays/%s' % (out_root, a.prop)
    os.makedirs(vc_dir, exist_ok=True); os.makedirs(rp_dir, exist_ok=True)
    for unit in cfg['python_units']:
        src = unit['source'].replace('/repo', repo, 1); con = unit['contracts'].replace('/repo', repo, 1)
        try:
            module, classes, externs, consts = parse_contracts(con)
            tree = ast.parse(open(src).read(), filename=src)
            ex = Exec(tree, src, classes, externs, consts)
            for cname, cs in classes.items():
                for mname, mc in cs.methods.items():
                    if a.prop not in mc.props: continue
                    if (cname, mname) not in ex.methods:
                        tool_errors.append('contract target %s.%s not found in %s' % (cname, mname, src)); continue
                    fdef = ex.methods[(cname, mname)]
                    fname = '%s.%s' % (cname, mname)
                    # initial symbolic state
                    fields = {n: fresh('self.' + n, t) for n, t in cs.fields.items()}
                    now0 = z3.Real('now@0')
                    st0 = State(fields, {}, [], now0)
                    params = [p.arg for p in fdef.args.args if p.arg != 'self']
                    for extra in (fdef.args.vararg, fdef.args.kwarg):
                        if extra is not None: params.append(extra.arg)
                    for p in params: st0.locs[p] = fresh(p, mc.params.get(p, 'opaque'))
                    pre = st0.clone()
                    hyps0 = []
                    spec0 = {'old': pre, 'result': None, 'raised': None}
                    for lab, text, ln in cs.invariants + mc.requires:
                        (_, v, _), = ex.expr(ast.parse(desugar(text), mode='eval').body, st0, cname, spec0)
                        hyps0.append(ex.truth(v))
                    ocs = ex.block(fdef.body, st0, cname)
                    nob = 0
                    def record(name, kind, text, pos, hyps, goal, expect='unsat'):
                        nonlocal nob
                        if expect == 'sat':
                            s = z3.Solver(); s.set('timeout', 6000)
                            for h in hyps: s.add(h)
                            t1 = time.time(); r = str(s.check()); dt = time.time() - t1; model = None; smt = s.to_smt2()
                            status = 'reachable' if r == 'sat' else ('VACUOUS' if r == 'unsat' else 'reachability-unknown')
                        else:
                            r, dt, model, smt = solve(hyps, goal, to * 1000)
                            status = 'discharged' if r == 'unsat' else 'FAILED'
                            nob += 1
                        fn = '%s/%s.smt2' % (vc_dir, re.sub(r'[^\w.]', '_', name)); open(fn, 'w').write(smt)
                        obs.append({'name': name, 'kind': kind, 'func': fname, 'pos': pos, 'text': text, 'expect': expect, 'result': r,
                                    'backend': 'z3-py-' + z3.get_version_string(), 'seconds': dt, 'smt_file': fn, 'status': status, 'model': model})
                    pos0 = '%s:%d' % (os.path.relpath(src, repo), fdef.lineno)
                    record('%s#reach.entry' % fname, 'vacuity', '', pos0, hyps0, None, 'sat')
                    # group outcomes: each path is an obligation instance; merged per clause by conjunction over paths
                    for lab, text, ln in mc.ensures + [(l, t, n) for (l, t, n) in cs.invariants]:
                        goals = []
                        for oc in ocs:
                            spec = {'old': pre, 'result': oc.val if oc.kind == 'return' else NONE, 'raised': oc.exc if oc.kind == 'raise' else None}
                            (_, v, _), = ex.expr(ast.parse(desugar(text), mode='eval').body, oc.st, cname, spec)
                            goals.append(z3.Implies(z3.And(*oc.st.pc) if oc.st.pc else z3.BoolVal(True), ex.truth(v)))
                        kind = 'ensures' if (lab, text, ln) in mc.ensures else 'invariant'
                        record('%s#%s[%s]' % (fname, kind, lab), 'postcondition' if kind == 'ensures' else 'class-invariant', text,
                               '%s:%d' % (os.path.relpath(con, repo), ln), hyps0, z3.And(*goals) if goals else z3.BoolVal(True))
                    if mc.noraise:
                        lab, ln = mc.noraise
                        kinds = sorted(set(oc.exc for oc in ocs if oc.kind == 'raise'))
                        goals = [z3.Not(z3.And(*oc.st.pc)) if oc.st.pc else z3.BoolVal(False) for oc in ocs if oc.kind == 'raise']
                        record('%s#never-raises[%s]' % (fname, lab), 'no-exception', 'no exception escapes (candidates on some path: %s)' % (', '.join(kinds) or 'none'),
                               '%s:%d' % (os.path.relpath(con, repo), ln), hyps0, z3.And(*goals) if goals else z3.BoolVal(True))
                    if mc.raises_only:
                        lab, allowed, ln = mc.raises_only
                        goals = [z3.Not(z3.And(*oc.st.pc)) if oc.st.pc else z3.BoolVal(False) for oc in ocs if oc.kind == 'raise' and oc.exc not in allowed]
                        record('%s#raises-only[%s]' % (fname, lab), 'no-exception', 'only %s may escape' % ', '.join(allowed),
                               '%s:%d' % (os.path.relpath(con, repo), ln), hyps0, z3.And(*goals) if goals else z3.BoolVal(True))
                    ret_pcs = [z3.And(*oc.st.pc) if oc.st.pc else z3.BoolVal(True) for oc in ocs]
                    record('%s#reach.return' % fname, 'vacuity', '', pos0, hyps0 + [z3.Or(*ret_pcs)], None, 'sat')
                    funcs.append({'func': fname, 'source': pos0, 'contract': '%s:%d' % (os.path.relpath(con, repo), mc.line), 'paths': len(ocs),
                                  'obligations': nob, 'inlined_callees': sorted(ex.inlined), 'externs': sorted(ex.trusted), 'notes': sorted(ex.notes), 'modes': ['seq']})
            trusted |= ex.trusted; notes |= ex.notes
        except ToolError as e:
            tool_errors.append(str(e))
        except SystemExit as e:
            tool_errors.append(str(e))
    # ---- wiring units: configuration value -> constructor argument -> field, followed through the real sources
    for w in cfg.get('python_wiring', []):
        try:
            P = lambda k: w[k].replace('/repo', repo, 1)
            module, classes, externs, consts = parse_contracts(P('contracts'))
            wc = None
            for cname, cs in classes.items():
                for mname, mc in cs.methods.items():
                    if a.prop in mc.props: wc = (cname, mname, mc, cs)
            if wc is None: raise ToolError('wiring %s: no contract with prop %s in %s' % (w['name'], a.prop, P('contracts')))
            cname, mname, mc, cs = wc
            init_tree = ast.parse(open(P('init_source')).read(), filename=P('init_source'))
            ex = Exec(init_tree, P('init_source'), classes, externs, consts)
            if (cname, mname) not in ex.methods: raise ToolError('wiring %s: %s.%s not found in %s' % (w['name'], cname, mname, P('init_source')))
            # (1) the defaults of the configuration class, evaluated from its class body (load_env_value: trusted model -
            #     the integer value of the variable when it is set and parses, the default otherwise)
            ctree = ast.parse(open(P('config_source')).read(), filename=P('config_source'))
            mconst = {}
            for node in ctree.body:
                if isinstance(node, ast.Assign) and len(node.targets) == 1 and isinstance(node.targets[0], ast.Name) and isinstance(node.value, ast.Constant) and isinstance(node.value.value, str):
                    mconst[node.targets[0].id] = node.value.value
            env_set = ex.uf('ext!env_set!Str', Str, z3.BoolSort()); env_int = ex.uf('ext!env_int!Str', Str, z3.IntSort())
            cfields = {}
            ccls = [n for n in ctree.body if isinstance(n, ast.ClassDef) and n.name == w['config_class']]
            if not ccls: raise ToolError('wiring %s: class %s not found in %s' % (w['name'], w['config_class'], P('config_source')))
            for st_ in ccls[0].body:
                if isinstance(st_, ast.AnnAssign) and isinstance(st_.target, ast.Name) and isinstance(st_.value, ast.Call) and isinstance(st_.value.func, ast.Name) and st_.value.func.id == 'load_env_value':
                    k, cast, dflt = st_.value.args[0], st_.value.args[1], st_.value.args[2]
                    key = mconst.get(k.id) if isinstance(k, ast.Name) else (k.value if isinstance(k, ast.Constant) else None)
                    if key is None or not (isinstance(cast, ast.Name) and cast.id == 'int') or not (isinstance(dflt, ast.Constant) and isinstance(dflt.value, int)):
                        raise ToolError('wiring %s: %s.%s: default not of the form load_env_value(<string constant>, int, <int>)' % (w['name'], w['config_class'], st_.target.id))
                    kc = ex.strlit(key)
                    cfields[st_.target.id] = z3.If(env_set(kc), env_int(kc), z3.IntVal(dflt.value))
            ex.trusted.add('extern load_env_value (trusted model: the integer value of the environment variable when set and parseable, else the default)')
            # (2) the construction site: keyword arguments that read <...>.<config_attr>.<field>
            ktree = ast.parse(open(P('call_source')).read(), filename=P('call_source'))
            calls = [n for n in ast.walk(ktree) if isinstance(n, ast.Call) and isinstance(n.func, ast.Name) and n.func.id == cname]
            if len(calls) != 1: raise ToolError('wiring %s: expected exactly one construction %s(...) in %s, found %d' % (w['name'], cname, P('call_source'), len(calls)))
            fdef = ex.methods[(cname, mname)]
            params = [p.arg for p in fdef.args.args if p.arg != 'self']
            argv = {}
            def argval(v, pname):
                if isinstance(v, ast.Attribute) and isinstance(v.value, ast.Attribute) and v.value.attr == w['config_attr'] and v.attr in cfields:
                    return Opt(z3.BoolVal(False), cfields[v.attr])
                return fresh(pname, 'opaque')
            for i, v in enumerate(calls[0].args):
                if i < len(params): argv[params[i]] = argval(v, params[i])
            for kw in calls[0].keywords:
                if kw.arg in params: argv[kw.arg] = argval(kw.value, kw.arg)
            # (3) the constructor body, run on these arguments
            fields = {n: fresh('self.' + n, t) for n, t in cs.fields.items()}
            st0 = State(fields, {}, [], z3.Real('now@0'))
            for p_ in params: st0.locs[p_] = argv.get(p_, fresh(p_, 'opaque'))
            pre = st0.clone()
            ocs = ex.block(fdef.body, st0, cname)
            fname = 'wiring:%s' % w['name']
            goalsets = []
            for lab, text, ln in mc.ensures:
                goals = []
                for oc in ocs:
                    spec = {'old': pre, 'result': NONE, 'raised': oc.exc if oc.kind == 'raise' else None}
                    (_, v, _), = ex.expr(ast.parse(desugar(text), mode='eval').body, oc.st, cname, spec)
                    goals.append(z3.Implies(z3.And(*oc.st.pc) if oc.st.pc else z3.BoolVal(True), ex.truth(v)))
                goalsets.append((lab, text, ln, z3.And(*goals) if goals else z3.BoolVal(True)))
            lits = list(getattr(ex, 'lits', {}).values())
            hyps = [z3.Distinct(*lits)] if len(lits) > 1 else []
            nob = 0
            for lab, text, ln, goal in goalsets:
                r, dt, model, smt = solve(hyps, goal, to * 1000); nob += 1
                name = '%s#ensures[%s]' % (fname, lab)
                fn = '%s/%s.smt2' % (vc_dir, re.sub(r'[^\w.]', '_', name)); open(fn, 'w').write(smt)
                obs.append({'name': name, 'kind': 'postcondition', 'func': fname, 'pos': '%s:%d' % (os.path.relpath(P('contracts'), repo), ln), 'text': text, 'expect': 'unsat', 'result': r,
                            'backend': 'z3-py-' + z3.get_version_string(), 'seconds': dt, 'smt_file': fn, 'status': 'discharged' if r == 'unsat' else 'FAILED', 'model': model})
            s_ = z3.Solver(); s_.set('timeout', 6000)
            for h in hyps: s_.add(h)
            s_.add(z3.Or(*[z3.And(*oc.st.pc) if oc.st.pc else z3.BoolVal(True) for oc in ocs]))
            r = str(s_.check())
            obs.append({'name': fname + '#reach.return', 'kind': 'vacuity', 'func': fname, 'pos': os.path.relpath(P('init_source'), repo), 'text': '', 'expect': 'sat', 'result': r,
                        'backend': 'z3-py-' + z3.get_version_string(), 'seconds': 0.0, 'smt_file': '', 'status': 'reachable' if r == 'sat' else ('VACUOUS' if r == 'unsat' else 'reachability-unknown'), 'model': None})
            funcs.append({'func': fname, 'source': '%s + %s + %s' % (os.path.relpath(P('config_source'), repo), os.path.relpath(P('call_source'), repo), os.path.relpath(P('init_source'), repo)),
                          'contract': '%s:%d' % (os.path.relpath(P('contracts'), repo), mc.line), 'paths': len(ocs), 'obligations': nob, 'inlined_callees': sorted(ex.inlined),
                          'externs': sorted(ex.trusted), 'notes': sorted(ex.notes), 'modes': ['seq']})
            trusted |= ex.trusted; notes |= ex.notes
        except ToolError as e:
            tool_errors.append(str(e))
        except SystemExit as e:
            tool_errors.append(str(e))
    # ---- registration units: which exception classes a hook registers with the shared fail-safe. The fail-safe swallows
    # (and counts as a gateway failure) every exception that is an instance of a registered class - for ALL hooks, the
    # object is shared. "Errors that do not come from the gateway are never swallowed" therefore needs every registered
    # class to be narrower than the built-in families application errors live in: no built-in exception class that has
    # subclasses of its own (BaseException, Exception, OSError/IOError/EnvironmentError/socket.error, ConnectionError,
    # LookupError, ArithmeticError, RuntimeError, ValueError, ...). Decided on the AST of the real source (class hierarchy
    # of the built-ins taken from the running interpreter); library classes (requests.ConnectionError, ...) are trusted
    # to be specific to a connection failure.
    import builtins as _bi
    def _broad(name):
        c = getattr(_bi, name, None)
        return isinstance(c, type) and issubclass(c, BaseException) and (len(c.__subclasses__()) > 0 or name in ('IOError', 'EnvironmentError'))
    for w in cfg.get('python_registrations', []):
        try:
            P = lambda k: w[k].replace('/repo', repo, 1)
            src = open(P('source')).read(); tree_ = ast.parse(src)
            regs = []; curmod_ = ''
            for ln_, line in enumerate(open(P('contracts')).read().splitlines(), 1):
                mm_ = re.match(r'#@ module (\S+)\s*$', line)
                if mm_: curmod_ = os.path.basename(mm_.group(1))
                m_ = re.match(r'#@ registration (\w+)\.(\w+) ([\w.]+)\s*$', line)
                if m_ and curmod_ == os.path.basename(P('source')): regs.append([m_.group(1), m_.group(2), m_.group(3), None, None, ln_])
                m_ = re.match(r'#@   prop (.*)$', line)
                if m_ and regs and regs[-1][3] is None: regs[-1][3] = [x.strip() for x in m_.group(1).split(',')]
                m_ = re.match(r'#@   ensures\[([\w-]+)\] narrow\(registered\)\s*$', line)
                if m_ and regs: regs[-1][4] = m_.group(1)
            imported = {}
            for n_ in ast.walk(tree_):
                if isinstance(n_, ast.ImportFrom):
                    for al in n_.names: imported[al.asname or al.name] = (n_.module or '') + '.' + al.name
                elif isinstance(n_, ast.Import):
                    for al in n_.names: imported[(al.asname or al.name).split('.')[0]] = al.name
            for cname, mname, callee, props_, label, cln in regs:
                if a.prop not in (props_ or []) or not label: continue
                fdef = None
                for n_ in tree_.body:
                    if isinstance(n_, ast.ClassDef) and n_.name == cname:
                        for m2 in n_.body:
                            if isinstance(m2, ast.FunctionDef) and m2.name == mname: fdef = m2
                if fdef is None: raise ToolError('registration %s.%s not found in %s' % (cname, mname, P('source')))
                def dotted(e):
                    if isinstance(e, ast.Name): return e.id
                    if isinstance(e, ast.Attribute):
                        b_ = dotted(e.value); return None if b_ is None else b_ + '.' + e.attr
                    return None
                calls = [c_ for c_ in ast.walk(fdef) if isinstance(c_, ast.Call) and dotted(c_.func) == callee]
                if not calls: raise ToolError('registration %s.%s: no call of %s (contract %s:%d)' % (cname, mname, callee, P('contracts'), cln))
                bad = []; seen_ = []
                for c_ in calls:
                    arg = c_.args[0] if c_.args else (c_.keywords[0].value if c_.keywords else None)
                    if isinstance(arg, ast.Name):
                        # a local that is assigned a literal tuple exactly once in this method
                        defs_ = [n2.value for n2 in ast.walk(fdef) if isinstance(n2, ast.Assign) and any(isinstance(t2, ast.Name) and t2.id == arg.id for t2 in n2.targets)]
                        defs_ += [n2.value for n2 in ast.walk(fdef) if isinstance(n2, ast.AnnAssign) and isinstance(n2.target, ast.Name) and n2.target.id == arg.id and n2.value is not None]
                        if len(defs_) == 1: arg = defs_[0]
                    elts = arg.elts if isinstance(arg, (ast.Tuple, ast.List)) else None
                    if elts is None: bad.append('<not a literal tuple: cannot be decided>'); continue
                    for e_ in elts:
                        d_ = dotted(e_)
                        if d_ is None: bad.append('<expression>'); continue
                        full = imported.get(d_.split('.')[0])
                        q = d_ if full is None else (full + d_[len(d_.split('.')[0]):])
                        seen_.append(q)
                        last = q.split('.')[-1]
                        if (full is None and '.' not in d_ and _broad(d_)) or q == 'socket.error' or (q.startswith('builtins.') and _broad(last)):
                            bad.append(q)
                fname = '%s.%s' % (cname, mname)
                name = '%s#ensures[%s]' % (fname, label)
                obs.append({'name': name, 'kind': 'postcondition', 'func': fname, 'pos': '%s:%d' % (os.path.relpath(P('contracts'), repo), cln), 'text': 'narrow(registered): registered = %s' % seen_, 'expect': 'unsat',
                            'result': 'sat' if bad else 'unsat', 'backend': 'ast (decidable: names of a literal tuple against the built-in exception hierarchy)', 'seconds': 0.0, 'smt_file': '',
                            'status': 'FAILED' if bad else 'discharged', 'model': {'registered class broader than a gateway failure': ', '.join(bad)} if bad else None})
                obs.append({'name': fname + '#reach.return', 'kind': 'vacuity', 'func': fname, 'pos': os.path.relpath(P('source'), repo), 'text': '', 'expect': 'sat', 'result': 'sat' if seen_ else 'unsat',
                            'backend': 'ast', 'seconds': 0.0, 'smt_file': '', 'status': 'reachable' if seen_ else 'VACUOUS', 'model': None})
                funcs.append({'func': fname, 'source': os.path.relpath(P('source'), repo), 'contract': '%s:%d' % (os.path.relpath(P('contracts'), repo), cln), 'paths': 1, 'obligations': 1,
                              'inlined_callees': [], 'externs': [], 'notes': ['registration unit: decided on the AST'], 'modes': ['seq']})
        except ToolError as e:
            tool_errors.append(str(e))
    nproof = sum(1 for o in obs if o['expect'] == 'unsat'); ndis = sum(1 for o in obs if o['status'] == 'discharged')
    nvac = sum(1 for o in obs if o['expect'] == 'sat'); nvacok = sum(1 for o in obs if o['status'] == 'reachable')
    for f in funcs: print('func %-60s modes=[seq] obligations=%d paths=%d' % (f['func'], f['obligations'], f['paths']))
    for o in obs:
        if a.v or o['status'] not in ('discharged', 'reachable'):
            print('  %-14s %-8s %6.2fs %-8s %s' % (o['status'], o['result'], o['seconds'], 'z3py', o['name']))
            if o['status'] == 'FAILED' and o['model']: print('      model: %s' % {k: v for k, v in list(o['model'].items())[:14]})
    for o in obs:
        if o['status'] == 'VACUOUS' or o['status'] == 'FAILED':
            if o['name'] in known and o['status'] == 'FAILED':
                known_hits.append('KNOWN-FINDING: property=%s %s (obligation %s)' % (a.prop, known[o['name']], o['name'])); continue
            rp = '%s/%s.json' % (rp_dir, re.sub(r'[^\w.]', '_', o['name']))
            rstatus = 'model-not-replayed' if o['model'] else 'no-model'; rcmd = None; rout = None
            try:
                import subprocess
                for r in json.load(open(V + '/replays.json'))['replays']:
                    if r['property'] == a.prop and any(o['name'].startswith(pf) for pf in r['prefixes']):
                        pr = subprocess.run(r['cmd'], cwd=V, capture_output=True, text=True)
                        rcmd = ' '.join(r['cmd']); rout = (pr.stdout + pr.stderr)[-6000:]
                        if pr.returncode != 0: rstatus = 'reproduced on the real code: the registered replay fails on this tree'
                        elif o['model']: rstatus = 'model-not-replayed (the registered replay passes on this tree: the failing input is another one)'
                        break
            except Exception as e:
                rout = 'replay could not be run: %s' % e
            json.dump({'property': a.prop, 'obligation': o['name'], 'clause': o['text'], 'position': o['pos'], 'solver_result': o['result'],
                       'model': o['model'], 'smt_file': o['smt_file'], 'replay_status': rstatus, 'replay_command': rcmd, 'replay_output': rout}, open(rp, 'w'), indent=1)
            violations.append('VIOLATION property=%s replay=%s%s' % (a.prop, rp, '' if o['model'] else ' no-failing-input-found'))
    regression = []
    # bounded stand-ins (labelled bounded; not part of the obligation counts): real functions outside the verifier's
    # reach, executed exhaustively up to a stated bound on the tree under check
    import subprocess
    for b in cfg.get('bounded', []):
        t1 = time.time()
        cmd = [c.replace('$REPO', os.environ.get('GOVC_REPO', '/repo')) for c in b['cmd']]
        try:
            pr = subprocess.run(cmd, cwd=V, capture_output=True, text=True, timeout=300); ok = pr.returncode == 0; outp = pr.stdout + pr.stderr
        except Exception as e:
            ok = False; outp = 'bounded stand-in could not be run: %s' % e
        print('  bounded        %-8s %6.2fs          %s [%s]' % ('ok' if ok else 'FAILED', time.time() - t1, b['name'], b['bound']))
        regression.append({'name': b['name'], 'stands_for': b.get('stands_for'), 'bound': b['bound'], 'command': ' '.join(cmd), 'result': 'ok' if ok else 'FAILED', 'seconds': time.time() - t1})
        if not ok:
            rp = '%s/bounded_%s.log' % (rp_dir, re.sub(r'\W', '', b['name']))
            open(rp, 'w').write('bounded stand-in %r (%s) failed\ncommand: %s\n\n%s' % (b['name'], b['bound'], cmd, outp[-8000:]))
            violations.append('VIOLATION property=%s replay=%s' % (a.prop, rp))
    if a.tier == 'thorough':
        # the registered replay tests of this property (one per defect found so far) must pass on this tree
        import subprocess
        try:
            for r in json.load(open(V + '/replays.json'))['replays']:
                if r['property'] != a.prop or any(k.startswith(pf) for k in known for pf in r['prefixes']): continue
                t1 = time.time(); pr = subprocess.run(r['cmd'], cwd=V, capture_output=True, text=True)
                print('  replay-test    %-8s %6.2fs          %s' % ('pass' if pr.returncode == 0 else 'FAILED', time.time() - t1, ' '.join(r['cmd'])))
                regression.append({'name': 'regression replay: ' + ' '.join(r['cmd']), 'result': 'passes on this tree' if pr.returncode == 0 else 'FAILS on this tree', 'seconds': time.time() - t1})
                if pr.returncode != 0:
                    rp = '%s/regression_%s.log' % (rp_dir, re.sub(r'\W', '_', ' '.join(r['cmd']))); open(rp, 'w').write(pr.stdout + pr.stderr)
                    violations.append('VIOLATION property=%s replay=%s' % (a.prop, rp))
        except Exception as e:
            tool_errors.append('regression replays could not be run: %s' % e)
    if nproof < cfg.get('min_obligations', 1): tool_errors.append('only %d obligations generated (expected at least %d): contracts did not bind' % (nproof, cfg.get('min_obligations', 1)))
    for k in known_hits: print(k)
    for te in tool_errors: print('TOOL-ERROR', te)
    if tool_errors and not violations:
        # the sources parse but a contract of this property no longer binds to them: obligations discharged on the unchanged
        # tree can not be generated, the property is undecided here - reported as a violation without a failing input
        rp = '%s/contract-binds.json' % rp_dir
        json.dump({'property': a.prop, 'obligation': 'contract-binds', 'why': 'the contracts of this property no longer bind to the sources', 'solver_output': '\n'.join(tool_errors), 'replay_status': 'no-model'}, open(rp, 'w'), indent=1)
        violations.append('VIOLATION property=%s replay=%s no-failing-input-found' % (a.prop, rp))
    for v in violations: print(v)
    wall = time.time() - t0
    print('property %s: %d/%d obligations discharged, %d/%d vacuity guards reachable, %d known-finding obligations, %d violations, %.1fs' % (a.prop, ndis + len(known_hits), nproof, nvacok, nvac, len(known_hits), len(violations), wall))
    if not a.noev:
        ev = {'property_id': a.prop, 'tier': a.tier, 'seed': int(os.environ.get('VERIF_SEED', '0') or 0), 'level': 'proof', 'wall_s': wall,
              'assumptions': cfg.get('assumptions', []) + ['unverified surroundings: ' + u for u in cfg.get('unverified', [])],
              'violations': len(violations),
              'coverage': {'obligations': nproof, 'discharged': ndis + len(known_hits), 'functions_under_contract': funcs, 'per_obligation': [{k: v for k, v in o.items() if k != 'model'} for o in obs],
                           'backends': {'z3-py-' + z3.get_version_string(): len(obs)}, 'solver_seconds': sum(o['seconds'] for o in obs), 'vacuity_guards': {'reachable': nvacok, 'total': nvac},
                           'known_findings_matched': known_hits or None, 'tool_errors': tool_errors or None, 'bounded_standins': regression,
                           'trusted_base': sorted(trusted) + ['pyvc (this front end) and z3', 'mathematical integers, real-valued floats', 'Python semantics of the stated subset (value semantics of and/or, exceptions, optional values)'],
                           'checker_cmd': './check %s --tier %s  (pyvc: symbolic execution of the real Python source, one z3 query per obligation, timeout %ds)' % (a.prop, a.tier, to),
                           'samples': [{k: o[k] for k in ('name', 'text', 'result', 'pos')} for o in obs if o['expect'] == 'unsat'][:4]}}
        json.dump(ev, open('%s/evidence/%s.json' % (V, a.prop), 'w'), indent=1)
    if violations: return 1
    if tool_errors: return 2
    return 0

if __name__ == '__main__':
    sys.exit(main())
