package main

import (
	"fmt"
	"go/ast"
	"go/token"
	"go/types"
	"os"
	"strconv"
	"strings"
)

// ---------------------------------------------------------------- time

func (e *Exec) now(st *State) Term { return e.get(st, "$now", tInt) }

func (e *Exec) advanceTime(st *State, atLeast string) Term {
	cur := e.now(st)
	n := e.havocKey(st, "$now", tInt)
	e.assume(st, fmt.Sprintf("(>= %s (+ %s %s))", n.S, cur.S, atLeast))
	return n
}

func (e *Exec) interfere(st *State, fr *Frame) {}

// ---------------------------------------------------------------- call dispatch

func unparen(x ast.Expr) ast.Expr {
	for {
		p, ok := x.(*ast.ParenExpr)
		if !ok {
			return x
		}
		x = p.X
	}
}

func (e *Exec) evalArgs(args []ast.Expr, c *Ctx) []Term {
	var out []Term
	for _, a := range args {
		out = append(out, e.eval(a, c))
	}
	return out
}

func (e *Exec) call(call *ast.CallExpr, c *Ctx, want int) []Term {
	if c.spec {
		return []Term{e.specCall(call, c)}
	}
	// call sites inside function literals of the function under verification belong to it as well
	hf := c.fr
	for hf != nil && !hf.top && hf.parent != nil && hf.parent.fi == hf.fi {
		hf = hf.parent
	}
	if hf != nil && hf.top && hf.contract != nil && len(hf.contract.OnCall) > 0 && !e.inSpawn {
		if key, ok := e.callOrd[call]; ok {
			e.ghostAt(c, hf, key+":before")
			r := e.call2(call, c, want)
			e.ghostAt(c, hf, key+":after")
			return r
		}
	}
	// a call site the contract names ("on call Execute 1 ...") that a refactoring moved into a private helper without
	// a contract: the helper is inlined, the call is still made on behalf of the function under verification, and the
	// ghost update still belongs to it - provided the function's own body no longer has a call of that name and
	// ordinal (then the clause can only mean the moved one). The update is evaluated over the variables of the function
	// under verification, which the helper cannot change.
	if top := topFrameOf(c.fr); top != nil && top != hf && top.contract != nil && len(top.contract.OnCall) > 0 && !e.inSpawn &&
		c.fr.fi != nil && c.fr.fi != top.fi && c.fr.fi.Decl != nil && c.fr.fi.Decl.Body != nil && e.prog.contractFor(c.fr.fi.Obj) == nil {
		if e.inlOrd == nil {
			e.inlOrd = map[*ast.BlockStmt]map[*ast.CallExpr]string{}
		}
		body := c.fr.fi.Decl.Body
		if e.inlOrd[body] == nil {
			e.inlOrd[body] = callOrdinals(body)
		}
		if key, ok := e.inlOrd[body][call]; ok && (len(top.contract.OnCall[key+":before"]) > 0 || len(top.contract.OnCall[key+":after"]) > 0) && !e.ownCallKey(key) {
			if !e.movedNoted[key] {
				if e.movedNoted == nil {
					e.movedNoted = map[string]bool{}
				}
				e.movedNoted[key] = true
				e.note("call site %s named by the contract now sits in the inlined helper %s: its ghost updates are applied there", key, c.fr.fi.Decl.Name.Name)
			}
			tc := &Ctx{st: c.st, fr: top, spec: false, bound: c.bound, old: c.old}
			e.ghostAt(tc, top, key+":before")
			r := e.call2(call, c, want)
			tc.st = c.st
			e.ghostAt(tc, top, key+":after")
			return r
		}
	}
	return e.call2(call, c, want)
}

// ownCallKey: does the body of the function under verification itself contain the call site "name:ordinal"?
func (e *Exec) ownCallKey(key string) bool {
	for _, k := range e.callOrd {
		if k == key {
			return true
		}
	}
	return false
}

// ghostAt runs the ghost assignments attached to a call site of the function under verification.
func (e *Exec) ghostAt(c *Ctx, hf *Frame, key string) {
	as := hf.contract.OnCall[key]
	if len(as) == 0 || c.st.dead() {
		return
	}
	sc := &Ctx{st: c.st, fr: c.fr, spec: true, old: hf.entry}
	for _, a := range as {
		e.assign(a.LHS, e.eval(a.RHS, sc), sc)
	}
}

// call2 wraps the dispatch with the copy-in / copy-out model of field addresses passed as arguments: f(&x.fld) gets a
// fresh cell holding x.fld; when the call returns the cell's value is written back to x.fld. (Sound for callees that use
// the pointer only during the call, which is what out-parameters are.)
func (e *Exec) call2(call *ast.CallExpr, c *Ctx, want int) []Term {
	type outArg struct {
		sel  *ast.SelectorExpr
		cell Term
		in   Term
	}
	var outs []outArg
	if !c.spec && !c.st.dead() {
		for _, a := range call.Args {
			u, ok := unparen(a).(*ast.UnaryExpr)
			if !ok || u.Op != token.AND {
				continue
			}
			sel, ok := unparen(u.X).(*ast.SelectorExpr)
			if !ok {
				continue
			}
			if _, isField := c.fr.info.Selections[sel]; !isField {
				continue
			}
			tv, ok := c.fr.info.Types[u]
			if !ok {
				continue
			}
			pt := e.prog.TypeOf(tv.Type, c.fr.subst)
			if pt.K != KRef || pt.Name != "" || pt.Elem == nil {
				continue // pointer to a struct-typed field: an object reference, not a cell
			}
			cur := e.eval(sel, c)
			// a temporary of this call only: not an allocation the contract has to declare
			wasListed := e.allocKinds["cell"]
			r := Term{e.alloc(c.st, "cell"), pt}
			if !wasListed {
				delete(e.allocKinds, "cell")
			}
			cur = e.coerce(cur, pt.Elem, c.st)
			at := &Type{K: KGMap, Key: tInt, Elem: pt.Elem}
			key := "P!" + mangle(e.Sort(pt.Elem))
			h := e.get(c.st, key, at)
			e.set(c.st, key, Term{fmt.Sprintf("(store %s %s %s)", h.S, r.S, cur.S), at})
			if e.addrCells == nil {
				e.addrCells = map[*ast.UnaryExpr]Term{}
			}
			e.addrCells[u] = r
			outs = append(outs, outArg{sel, r, cur})
		}
	}
	res := e.call3(call, c, want)
	for _, o := range outs {
		if c.st.dead() {
			break
		}
		at := &Type{K: KGMap, Key: tInt, Elem: o.cell.T.Elem}
		h := e.get(c.st, "P!"+mangle(e.Sort(o.cell.T.Elem)), at)
		// a contract may also describe the effect on the field itself (modifies x.fld / allof(T.fld)): the value written
		// through the pointer wins only if the cell was written
		after := e.coerce(e.eval(o.sel, c), o.cell.T.Elem, c.st)
		e.assign(o.sel, Term{fmt.Sprintf("(ite (= (select %s %s) %s) %s (select %s %s))", h.S, o.cell.S, o.in.S, after.S, h.S, o.cell.S), o.cell.T.Elem}, c)
	}
	return res
}

func (e *Exec) call3(call *ast.CallExpr, c *Ctx, want int) []Term {
	info := c.fr.info
	fun := unparen(call.Fun)
	// conversion
	if tv, ok := info.Types[fun]; ok && tv.IsType() {
		t := e.prog.TypeOf(tv.Type, c.fr.subst)
		v := e.eval(call.Args[0], c)
		return []Term{e.convert(v, t, c)}
	}
	// strip explicit instantiation f[T](...)
	var inst []types.Type
	if ix, ok := fun.(*ast.IndexExpr); ok {
		if tv, ok := info.Types[ix.X]; ok {
			if _, isSig := tv.Type.Underlying().(*types.Signature); isSig {
				fun = unparen(ix.X)
			}
		}
	}
	if ix, ok := fun.(*ast.IndexListExpr); ok {
		if tv, ok := info.Types[ix.X]; ok {
			if _, isSig := tv.Type.Underlying().(*types.Signature); isSig {
				fun = unparen(ix.X)
			}
		}
	}
	switch f := fun.(type) {
	case *ast.Ident:
		switch obj := info.Uses[f].(type) {
		case *types.Builtin:
			return e.builtin(obj.Name(), call, c, want)
		case *types.Func:
			if in, ok := info.Instances[f]; ok && in.TypeArgs != nil {
				for i := 0; i < in.TypeArgs.Len(); i++ {
					inst = append(inst, in.TypeArgs.At(i))
				}
			}
			return e.callFunc(obj, nil, nil, call, c, want, inst)
		case *types.Var:
			return e.callFuncValue(obj, nil, f.Name, call, c, want)
		}
	case *ast.SelectorExpr:
		if sel, ok := info.Selections[f]; ok {
			switch sel.Kind() {
			case types.MethodVal:
				fn := sel.Obj().(*types.Func)
				return e.callFunc(fn, f.X, sel, call, c, want, nil)
			case types.FieldVal:
				v := sel.Obj().(*types.Var)
				return e.callFuncValue(v, f, f.Sel.Name, call, c, want)
			}
		}
		// package-qualified function
		if obj, ok := info.Uses[f.Sel].(*types.Func); ok {
			if in, ok := info.Instances[f.Sel]; ok && in.TypeArgs != nil {
				for i := 0; i < in.TypeArgs.Len(); i++ {
					inst = append(inst, in.TypeArgs.At(i))
				}
			}
			return e.callFunc(obj, nil, nil, call, c, want, inst)
		}
		if obj, ok := info.Uses[f.Sel].(*types.Var); ok {
			return e.callFuncValue(obj, nil, f.Sel.Name, call, c, want)
		}
	case *ast.FuncLit:
		args := e.evalArgs(call.Args, c)
		return e.inlineLit(f, args, c, want)
	}
	e.note("call %s is not resolved statically: havoc", exprText(call.Fun))
	e.evalArgs(call.Args, c)
	return e.havocCall(call, c, want, exprText(call.Fun))
}

func (e *Exec) resultTypes(call *ast.CallExpr, c *Ctx) []*Type {
	tv, ok := c.fr.info.Types[call]
	if !ok || tv.Type == nil {
		return nil
	}
	t := e.prog.TypeOf(tv.Type, c.fr.subst)
	if t.K == KTuple {
		return t.Tuple
	}
	if t.K == KUnit {
		return nil
	}
	return []*Type{t}
}

func (e *Exec) freshResults(call *ast.CallExpr, c *Ctx, base string) []Term {
	var out []Term
	for _, t := range e.resultTypes(call, c) {
		v := Term{e.vc.FreshConst(base, e.Sort(t)), t}
		out = append(out, v)
	}
	return out
}

// havocCall: unknown callee - everything reachable may change.
func (e *Exec) havocCall(call *ast.CallExpr, c *Ctx, want int, name string) []Term {
	e.havocs[name+" at "+e.prog.pos(call)] = true
	e.havocAll(c.st)
	return e.freshResults(call, c, "res")
}

func (e *Exec) havocAll(st *State) {
	for k := range st.vars {
		if isHeapKey(k) {
			delete(st.vars, k)
		}
	}
	// fresh epoch: initial constants of heap keys are no longer valid for this state
	e.epochN++
	st.vars["$epoch"] = Term{fmt.Sprintf("%d", e.epochN), tInt}
	// the paths on which this happened (joined as a condition, so that a havoc on an infeasible branch does not taint the join)
	st.vars["$hv"] = Term{"true", tBool}
}

func isHeapKey(k string) bool {
	return strings.HasPrefix(k, "OP!") || strings.HasPrefix(k, "OV!") || strings.HasPrefix(k, "H!") || strings.HasPrefix(k, "MD!") || strings.HasPrefix(k, "MV!") || strings.HasPrefix(k, "P!") ||
		strings.HasPrefix(k, "G!") || strings.HasPrefix(k, "SM!")
}

func fullName(fn *types.Func) string { return fn.Origin().FullName() }

var pureStd = map[string]bool{"time": true, "strings": true, "strconv": true, "math": true, "path": true, "path/filepath": true, "unicode": true,
	"net/url": true, "sort": false, "bytes": true, "slices": true, "golang.org/x/exp/slices": true, "github.com/samber/lo": false,
	"crypto/sha256": true, "encoding/hex": true, "reflect": true}

func (e *Exec) callFunc(fn *types.Func, recvExpr ast.Expr, sel *types.Selection, call *ast.CallExpr, c *Ctx, want int, inst []types.Type) []Term {
	name := fullName(fn)
	// logging / metrics: dropped by the extraction
	if e.isDropped(fn, recvExpr, c) {
		e.dropped[shortName(name)] = true
		return e.freshResults(call, c, "dropped")
	}
	if r, ok := e.intrinsic(name, fn, recvExpr, call, c, want); ok {
		return r
	}
	sig := fn.Type().(*types.Signature)
	// receiver value
	var recv *Term
	if recvExpr != nil {
		rv := e.eval(recvExpr, c)
		recv = &rv
	}
	// a method of a type-parameter constraint called on a value whose type parameter is instantiated (V=Count):
	// the method of the concrete type
	if recv != nil && recv.T.K != KAny && sig.Recv() != nil {
		var concrete types.Type = recv.T.G
		if recvExpr != nil {
			if tv, ok := c.fr.info.Types[recvExpr]; ok && tv.Type != nil {
				// the static type of the receiver expression with this activation's type arguments
				if rt := resolve(tv.Type, c.fr.subst); rt != nil {
					if _, isTP := rt.(*types.TypeParam); !isTP {
						concrete = rt
					}
				}
			}
		}
		if _, isIface := sig.Recv().Type().Underlying().(*types.Interface); isIface && concrete != nil {
			if obj, _, _ := types.LookupFieldOrMethod(concrete, true, fn.Pkg(), fn.Name()); obj != nil {
				if m, ok := obj.(*types.Func); ok && m != fn {
					e.note("constraint method %s resolved to %s (type parameter instantiated)", shortName(name), shortName(fullName(m)))
					fn = m
					sig = fn.Type().(*types.Signature)
					sel = nil
				}
			}
		}
	}
	args := e.evalArgs(call.Args, c)
	args = e.packVariadic(sig, args, call, c)
	return e.dispatch(fn, recv, args, call, c, want, inst, sel)
}

// dispatch: contract -> pure -> inline -> pure-std -> havoc, after devirtualisation.
func (e *Exec) dispatch(fn *types.Func, recv *Term, args []Term, call *ast.CallExpr, c *Ctx, want int, inst []types.Type, sel *types.Selection) []Term {
	name := fullName(fn)
	pkgPath := ""
	if fn.Pkg() != nil {
		pkgPath = fn.Pkg().Path()
	}
	sig := fn.Type().(*types.Signature)
	// interface method: closed-world case split if declared
	if recv != nil && recv.T.K == KAny && e.topCon != nil && e.topCon.Dispatch != nil {
		if in, ok := types.Unalias(sig.Recv().Type()).(*types.Named); ok {
			impls, ok := e.topCon.Dispatch[in.Obj().Name()+"."+fn.Name()]
			if !ok {
				if _, hasIface := e.prog.contracts[e.topCon.PkgName+"."+in.Obj().Name()+"."+fn.Name()]; !hasIface {
					impls, ok = e.topCon.Dispatch[in.Obj().Name()]
				}
			}
			if ok {
				return e.closedDispatch(fn, *recv, args, call, c, want, impls, in.Obj().Name())
			}
		}
	}
	// interface method: devirtualise if declared
	if recv != nil && recv.T.K == KAny {
		if conc := e.devirtTarget(fn, sig); conc != nil {
			e.note("interface method %s devirtualised to %s (closed world: declared by a devirt clause)", shortName(name), shortName(fullName(conc)))
			// type arguments of the interface instantiate the implementation (SharedStateI[int64] => *memoryState[int64])
			var targs []types.Type
			if in, ok := types.Unalias(sig.Recv().Type()).(*types.Named); ok && in.TypeArgs() != nil {
				for i := 0; i < in.TypeArgs().Len(); i++ {
					targs = append(targs, resolve(in.TypeArgs().At(i), c.fr.subst))
				}
			}
			if len(targs) == 0 && recv.T.G != nil {
				if in, ok := types.Unalias(recv.T.G).(*types.Named); ok && in.TypeArgs() != nil {
					for i := 0; i < in.TypeArgs().Len(); i++ {
						targs = append(targs, resolve(in.TypeArgs().At(i), c.fr.subst))
					}
				}
			}
			sig0 := sig
			fn = conc
			name = fullName(fn)
			sig = fn.Type().(*types.Signature)
			rgt := sig.Recv().Type()
			if len(targs) > 0 {
				base := rgt
				isPtr := false
				if pt, ok := base.(*types.Pointer); ok {
					base, isPtr = pt.Elem(), true
				}
				if nn, ok := types.Unalias(base).(*types.Named); ok && nn.Origin().TypeParams().Len() == len(targs) {
					if it, err := types.Instantiate(nil, nn.Origin(), targs, false); err == nil {
						rgt = it
						if isPtr {
							rgt = types.NewPointer(it)
						}
					}
				}
			}
			rt := e.prog.TypeOf(rgt, nil)
			// the interface value is assumed to hold this implementation (recorded as an assumption)
			e.externs["devirt: values of "+shortName(name)+"'s interface are assumed to be "+rt.String()] = true
			val := Term{fmt.Sprintf("(a_val %s)", recv.S), rt}
			if rt.K == KStruct && e.devirtDeclaredPtr(sig0) {
				// the interface holds *T and the method has a value receiver: the receiver is the pointee
				pt := e.prog.TypeOf(types.NewPointer(rgt), nil)
				val = e.deref(Term{fmt.Sprintf("(a_val %s)", recv.S), pt}, c, call)
			}
			recv = &val
			sel = nil
		}
	}
	if ct := e.prog.contractFor(fn); ct != nil && !(ct.Inline && ct.Kind == "func") && !(ct.Kind == "func" && e.prog.isPure(fn)) {
		saved := e.curInst
		e.curInst = inst // explicit / inferred type arguments of a generic callee: its result and parameter types are instantiated
		r := e.applyContract(ct, fn, sig, recv, args, call, c)
		e.curInst = saved
		return r
	}
	// (a function declared pure AND given a contract: callers see the deterministic function, its body is verified
	// against the contract on its own)
	if e.prog.isPure(fn) {
		return e.pureCall(name, recv, args, call, c)
	}
	if fi := e.prog.funcs[name]; fi != nil && e.canInline(name) && strings.HasPrefix(fi.Pkg.PkgPath, "lunar/") {
		return e.inline(fi, recv, args, call, c, inst, sel)
	}
	if pureStd[pkgPath] {
		e.externs["pure-std: "+shortName(name)+" (deterministic function of its arguments)"] = true
		return e.pureCall(name, recv, args, call, c)
	}
	e.note("no contract or body for %s: havoc", shortName(name))
	return e.havocCall(call, c, want, shortName(name))
}

func shortName(full string) string {
	full = strings.ReplaceAll(full, "lunar/engine/", "")
	full = strings.ReplaceAll(full, "lunar/toolkit-core/", "toolkit-core/")
	return full
}

func (e *Exec) canInline(name string) bool {
	if len(e.stack) >= e.maxInl {
		return false
	}
	for _, s := range e.stack {
		if s == name {
			return false
		}
	}
	return true
}

func (e *Exec) packVariadic(sig *types.Signature, args []Term, call *ast.CallExpr, c *Ctx) []Term {
	if !sig.Variadic() || call.Ellipsis.IsValid() {
		return args
	}
	n := sig.Params().Len()
	if len(args) < n-1 {
		return args
	}
	st := e.prog.TypeOf(sig.Params().At(n-1).Type(), c.fr.subst)
	cur := e.Zero(st)
	for _, a := range args[n-1:] {
		cur = e.seqAppendOne(cur, e.coerce(a, st.Elem, c.st))
	}
	// the packed slice has a known length: loops over it are unrolled
	name := e.vc.Define("variadic", e.Sort(st), cur.S)
	e.knownLen[name] = len(args) - (n - 1)
	e.vc.Fact(fmt.Sprintf("(= (len!%s %s) %d)", e.Sort(st), name, len(args)-(n-1)))
	cur = Term{name, st}
	return append(append([]Term{}, args[:n-1]...), cur)
}

func (e *Exec) isDropped(fn *types.Func, recvExpr ast.Expr, c *Ctx) bool {
	if fn.Pkg() == nil {
		return false
	}
	pp := fn.Pkg().Path()
	if strings.HasPrefix(pp, "github.com/rs/zerolog") || strings.HasPrefix(pp, "go.opentelemetry.io/") {
		return true
	}
	name := fullName(fn)
	for _, d := range e.prog.dropped {
		if strings.Contains(name, d) {
			return true
		}
	}
	return false
}

// devirtDeclaredPtr: the devirt clause for this interface names a pointer type (*T).
func (e *Exec) devirtDeclaredPtr(sig *types.Signature) bool {
	n, ok := types.Unalias(sig.Recv().Type()).(*types.Named)
	if !ok {
		return false
	}
	tgt, ok := "", false
	if e.topCon != nil && e.topCon.Devirt != nil {
		tgt, ok = e.topCon.Devirt[n.Obj().Name()]
	}
	if !ok {
		tgt = e.prog.devirt[n.Obj().Name()]
	}
	return strings.HasPrefix(strings.TrimSpace(tgt), "*")
}

func (e *Exec) devirtTarget(fn *types.Func, sig *types.Signature) *types.Func {
	if sig.Recv() == nil {
		return nil
	}
	rt := types.Unalias(sig.Recv().Type())
	n, ok := rt.(*types.Named)
	if !ok {
		return nil
	}
	tgt, ok := "", false
	if e.topCon != nil && e.topCon.Devirt != nil {
		tgt, ok = e.topCon.Devirt[n.Obj().Name()]
	}
	if !ok {
		tgt, ok = e.prog.devirt[n.Obj().Name()]
	}
	if !ok {
		return nil
	}
	tgt = strings.TrimPrefix(strings.TrimSpace(tgt), "*")
	for full, fi := range e.prog.funcs {
		_ = full
		if fi.Obj.Name() != fn.Name() {
			continue
		}
		s := fi.Obj.Type().(*types.Signature)
		if s.Recv() == nil {
			continue
		}
		r := s.Recv().Type()
		if p, ok := r.(*types.Pointer); ok {
			r = p.Elem()
		}
		if nn, ok := types.Unalias(r).(*types.Named); ok && nn.Obj().Name() == tgt {
			return fi.Obj
		}
	}
	return nil
}

// pureCall: an uninterpreted function of receiver and arguments.
func (e *Exec) pureCall(name string, recv *Term, args []Term, call *ast.CallExpr, c *Ctx) []Term {
	rts := e.resultTypes(call, c)
	var all []Term
	if recv != nil {
		all = append(all, *recv)
	}
	all = append(all, args...)
	var out []Term
	for i, rt := range rts {
		out = append(out, e.uninterp(fmt.Sprintf("fn!%s!%d", mangle(shortName(name)), i), all, rt))
	}
	return out
}

func (e *Exec) uninterp(fname string, args []Term, rt *Type) Term {
	var sorts, as []string
	for _, a := range args {
		sorts = append(sorts, e.Sort(a.T))
		as = append(as, a.S)
	}
	fname = fname + "!" + mangle(strings.Join(sorts, "_"))
	e.vc.Decl("fun:"+fname, fmt.Sprintf("(declare-fun %s (%s) %s)", fname, strings.Join(sorts, " "), e.Sort(rt)))
	if len(as) == 0 {
		return Term{fname, rt}
	}
	return Term{fmt.Sprintf("(%s %s)", fname, strings.Join(as, " ")), rt}
}

// callFuncValue: call of a function-typed variable or field.
func (e *Exec) callFuncValue(v *types.Var, selExpr *ast.SelectorExpr, name string, call *ast.CallExpr, c *Ctx, want int) []Term {
	args := e.evalArgs(call.Args, c)
	if v.IsField() && selExpr != nil {
		if sel, ok := c.fr.info.Selections[selExpr]; ok {
			rt := sel.Recv()
			if p, ok := rt.(*types.Pointer); ok {
				rt = p.Elem()
			}
			// the struct that declares the field: walk the selection path
			owner := e.fieldOwnerName(rt, sel.Index())
			for _, k := range []string{owner + "." + name} {
				if ct, ok := e.prog.contracts[k]; ok && ct.Kind == "field" {
					sig := v.Type().Underlying().(*types.Signature)
					base := e.eval(selExpr.X, c)
					return e.applyContract(ct, nil, sig, &base, args, call, c)
				}
			}
		}
	}
	// local closure
	if !v.IsField() {
		if fl := e.findClosure(c.fr, e.keyOf(v)); fl != nil {
			return e.inlineLit(fl, args, c, want)
		}
		cur := e.get(c.st, e.keyOf(v), &Type{K: KFunc})
		if mv, ok := e.methodVals[cur.S]; ok {
			recv := mv.recv
			msig := mv.fn.Type().(*types.Signature)
			args = e.packVariadic(msig, args, call, c)
			return e.dispatch(mv.fn, &recv, args, call, c, want, nil, nil)
		}
		if fl, ok := e.litVals[cur.S]; ok {
			return e.inlineLit(fl, args, c, want)
		}
		if ct, ok := e.prog.contracts[e.fnShort()+"."+name]; ok && ct.Kind == "field" {
			sig := v.Type().Underlying().(*types.Signature)
			return e.applyContract(ct, nil, sig, nil, args, call, c)
		}
	}
	e.note("call of function value %s without contract: havoc", name)
	return e.havocCall(call, c, want, "funcvalue "+name)
}

func (e *Exec) fnShort() string {
	if e.topCon != nil {
		return e.topCon.Key
	}
	return e.fnName
}

func (e *Exec) findClosure(fr *Frame, key string) *ast.FuncLit {
	for f := fr; f != nil; f = f.parent {
		if fl, ok := f.closures[key]; ok {
			return fl
		}
	}
	return nil
}

func (e *Exec) fieldOwnerName(t types.Type, index []int) string {
	cur := t
	name := ""
	for i, ix := range index {
		cur = types.Unalias(cur)
		if p, ok := cur.(*types.Pointer); ok {
			cur = types.Unalias(p.Elem())
		}
		if n, ok := cur.(*types.Named); ok {
			name = n.Obj().Name()
		}
		st, ok := cur.Underlying().(*types.Struct)
		if !ok {
			return name
		}
		if i == len(index)-1 {
			return name
		}
		cur = st.Field(ix).Type()
	}
	return name
}

// ---------------------------------------------------------------- conversions and builtins

func (e *Exec) convert(v Term, t *Type, c *Ctx) Term {
	switch {
	case t.K == KAny:
		return e.toAny(v, c.st)
	case t.K == KReal && v.T.K == KInt:
		r := e.toReal(v)
		return Term{r.S, t}
	case t.K == KInt && v.T.K == KReal:
		// truncation toward zero
		return Term{fmt.Sprintf("(ite (>= %s 0.0) (to_int %s) (- (to_int (- %s))))", v.S, v.S, v.S), t}
	case t.K == KStr && v.T.K == KSlice:
		return e.uninterp("bytes2str", []Term{v}, t)
	case t.K == KSlice && v.T.K == KStr:
		return e.uninterp("str2bytes", []Term{v}, t)
	case t.K == KStr && v.T.K == KInt:
		return e.uninterp("rune2str", []Term{v}, t)
	case v.T.K == KNil:
		return e.Zero(t)
	}
	return Term{v.S, t}
}

func (e *Exec) builtin(name string, call *ast.CallExpr, c *Ctx, want int) []Term {
	switch name {
	case "len", "cap":
		v := e.eval(call.Args[0], c)
		switch v.T.K {
		case KSlice:
			l := e.seqLen(v)
			e.assume(c.st, fmt.Sprintf("(>= %s 0)", l))
			return []Term{{l, tInt}}
		case KMap:
			return []Term{{fmt.Sprintf("(ite (= %s 0) 0 %s)", v.S, e.mapLen(c.st, v)), tInt}}
		case KStr:
			return []Term{{e.strLen(v), tInt}}
		case KChan:
			r := e.vc.FreshConst("chanlen", "Int")
			e.assume(c.st, fmt.Sprintf("(>= %s 0)", r))
			return []Term{{r, tInt}}
		}
	case "append":
		s := e.eval(call.Args[0], c)
		if s.T.K != KSlice {
			break
		}
		if call.Ellipsis.IsValid() && len(call.Args) == 2 {
			o := e.eval(call.Args[1], c)
			if o.T.K == KStr {
				return []Term{e.uninterp("appendstr", []Term{s, o}, s.T)}
			}
			e.assume(c.st, fmt.Sprintf("(and (>= %s 0) (>= %s 0))", e.seqLen(s), e.seqLen(o)))
			if so := e.sliceOrig[s.S]; so != nil && !c.spec && so.baseText != e.assignLHS && !e.aliasOfAssigned(so) {
				e.safetyAssert(c, "append-aliasing", fmt.Sprintf("(or (= %s 0) (>= (+ %s %s) %s))", e.seqLen(o), so.lo, e.seqLen(s), e.seqLen(so.base)),
					exprText(call.Args[0]), call)
				r := e.seqConcat(s, o)
				e.sliceOrig[r.S] = so
				return []Term{r}
			}
			return []Term{e.seqConcat(s, o)}
		}
		so := e.sliceOrig[s.S]
		if so != nil && !c.spec && so.baseText != e.assignLHS && !e.aliasOfAssigned(so) {
			e.safetyAssert(c, "append-aliasing", fmt.Sprintf("(>= (+ %s %s) %s)", so.lo, e.seqLen(s), e.seqLen(so.base)),
				exprText(call.Args[0]), call)
		}
		cur := s
		for _, a := range call.Args[1:] {
			cur = e.seqAppendOne(cur, e.coerce(e.eval(a, c), s.T.Elem, c.st))
		}
		if so != nil {
			e.sliceOrig[cur.S] = so
		}
		return []Term{cur}
	case "delete":
		m := e.eval(call.Args[0], c)
		k := e.eval(call.Args[1], c)
		if m.T.K == KMap {
			e.guardWriteThrough(call.Args[0], c)
			e.mapDelete(c, m, k)
			return nil
		}
	case "make":
		t := e.prog.TypeOf(c.fr.info.Types[call.Args[0]].Type, c.fr.subst)
		switch t.K {
		case KMap:
			r := e.alloc(c.st, "map")
			da := e.mapDomArr(c.st, t)
			e.set(c.st, "MD!"+mapKeyName(e, t), Term{fmt.Sprintf("(store %s %s ((as const (Array %s Bool)) false))", da.S, r, e.Sort(t.Key)), da.T})
			card := e.cardFn(t)
			e.vc.Fact(fmt.Sprintf("(= (%s ((as const (Array %s Bool)) false)) 0)", card, e.Sort(t.Key)))
			return []Term{{r, t}}
		case KSlice:
			n := "0"
			if len(call.Args) > 1 {
				n = e.eval(call.Args[1], c).S
			}
			arr := fmt.Sprintf("((as const (Array Int %s)) %s)", e.Sort(t.Elem), e.Zero(t.Elem).S)
			return []Term{e.mkSeq(t, arr, n)}
		case KChan:
			r := e.alloc(c.st, "chan")
			capv := "0"
			if len(call.Args) > 1 {
				capv = e.eval(call.Args[1], c).S
			}
			at := &Type{K: KGMap, Key: tInt, Elem: tInt}
			ca := e.get(c.st, "H!$chan!cap", at)
			e.set(c.st, "H!$chan!cap", Term{fmt.Sprintf("(store %s %s %s)", ca.S, r, capv), at})
			return []Term{{r, t}}
		}
	case "new":
		t := e.prog.TypeOf(c.fr.info.Types[call.Args[0]].Type, c.fr.subst)
		if t.K == KStruct {
			r := e.alloc(c.st, shortStructName(t.Name))
			for _, f := range e.fieldsOf(t) {
				h := e.heapArr(c.st, t.Name, f)
				e.set(c.st, heapKey(t.Name, f.Name), Term{fmt.Sprintf("(store %s %s %s)", h.S, r, e.Zero(f.Type).S), h.T})
			}
			return []Term{{r, &Type{K: KRef, Name: t.Name, St: t.St, Subst: t.Subst, G: ptrTo(t.G)}}}
		}
		r := e.alloc(c.st, "cell")
		return []Term{{r, &Type{K: KRef, Elem: t}}}
	case "panic":
		e.evalArgs(call.Args, c)
		e.safetyAssert(c, "panic", "false", exprText(call), call)
		c.st.pc = "false"
		return nil
	case "min", "max":
		a := e.eval(call.Args[0], c)
		for _, x := range call.Args[1:] {
			b := e.eval(x, c)
			op := "<="
			if name == "max" {
				op = ">="
			}
			a = Term{fmt.Sprintf("(ite (%s %s %s) %s %s)", op, a.S, b.S, a.S, b.S), a.T}
		}
		return []Term{a}
	case "close":
		e.evalArgs(call.Args, c)
		return nil
	case "copy":
		e.evalArgs(call.Args, c)
		e.note("builtin copy is not modelled (result havocked)")
		return []Term{{e.vc.FreshConst("copied", "Int"), tInt}}
	case "print", "println":
		return nil
	}
	e.errorf("%s: unsupported builtin %s", e.curPos, name)
	return e.freshResults(call, c, "builtin")
}

// ---------------------------------------------------------------- inlining

// aliasOfAssigned: the slice the sub-slice was cut from is the current value of the variable being assigned (directly or
// through a type assertion): `x = append(y[:i], y[i+1:]...)` with y := x (or y := x.([]T)) is the delete idiom too.
func (e *Exec) aliasOfAssigned(so *sliceOrigin) bool {
	v := e.assignLHSVal
	if os.Getenv("GOVC_DEBUG") != "" && so != nil {
		fmt.Fprintf(os.Stderr, "DEBUG alias: base=%s lhsval=%s\n", so.base.S, v)
	}
	if v == "" || so == nil {
		return false
	}
	base := so.base.S
	for i := 0; i < 4; i++ {
		if base == v || base == "(a_val "+v+")" {
			return true
		}
		d := e.vc.DefOf(base)
		if d == "" {
			return false
		}
		if strings.Contains(d, "(unbox!") && strings.Contains(d, "(a_val "+v+")") {
			return true // y := x.([]T)
		}
		base = d
	}
	return false
}

func topFrameOf(fr *Frame) *Frame {
	for fr != nil && !fr.top {
		fr = fr.parent
	}
	return fr
}

func (e *Exec) newFrame(fi *FuncInfo, parent *Frame, subst map[*types.TypeParam]types.Type) *Frame {
	fr := &Frame{fi: fi, info: fi.Pkg.TypesInfo, pkg: fi.Pkg, subst: subst, names: map[string]string{}, ntypes: map[string]*Type{},
		closures: map[string]*ast.FuncLit{}, parent: parent}
	if parent != nil {
		fr.depth = parent.depth + 1
	}
	return fr
}

// bindParams declares receiver, parameters and named results of a declared function.
func (e *Exec) bindParams(fr *Frame, ftype *ast.FuncType, recvList *ast.FieldList, st *State, recv *Term, args []Term) {
	if recvList != nil && len(recvList.List) > 0 && recv != nil {
		f := recvList.List[0]
		if len(f.Names) > 0 {
			obj := fr.info.Defs[f.Names[0]]
			if obj != nil {
				t := e.prog.TypeOf(obj.Type(), fr.subst)
				e.declare(fr, obj, st, e.adaptRecv(*recv, t, st))
			}
		}
	}
	i := 0
	if ftype.Params != nil {
		for _, f := range ftype.Params.List {
			if len(f.Names) == 0 {
				i++
				continue
			}
			for _, n := range f.Names {
				obj := fr.info.Defs[n]
				if obj != nil && i < len(args) {
					t := e.prog.TypeOf(obj.Type(), fr.subst)
					e.declare(fr, obj, st, e.coerce(args[i], t, st))
				}
				i++
			}
		}
	}
	fr.resKeys, fr.resTypes = nil, nil
	if ftype.Results != nil {
		for _, f := range ftype.Results.List {
			t := e.prog.TypeOf(fr.info.Types[f.Type].Type, fr.subst)
			if len(f.Names) == 0 {
				fr.resKeys = append(fr.resKeys, "")
				fr.resTypes = append(fr.resTypes, t)
				continue
			}
			for _, n := range f.Names {
				obj := fr.info.Defs[n]
				if obj != nil {
					e.declare(fr, obj, st, e.Zero(t))
					fr.resKeys = append(fr.resKeys, e.keyOf(obj))
				} else {
					fr.resKeys = append(fr.resKeys, "")
				}
				fr.resTypes = append(fr.resTypes, t)
			}
		}
	}
}

// adaptRecv converts between pointer and value receivers.
func (e *Exec) adaptRecv(recv Term, want *Type, st *State) Term {
	if want.K == KRef && recv.T.K == KStruct {
		// method with pointer receiver called on an addressable value: not modelled precisely
		e.note("pointer-receiver method called on a struct value: receiver copied to a fresh object")
		r := e.alloc(st, shortStructName(recv.T.Name))
		for _, f := range e.fieldsOf(recv.T) {
			h := e.heapArr(st, recv.T.Name, f)
			e.set(st, heapKey(recv.T.Name, f.Name), Term{fmt.Sprintf("(store %s %s (%s!%s %s))", h.S, r, e.Sort(recv.T), f.Name, recv.S), h.T})
		}
		return Term{r, want}
	}
	if want.K == KStruct && recv.T.K == KRef {
		c := &Ctx{st: st, spec: true}
		return e.deref(recv, c, nil)
	}
	if want.K != KAny && recv.T.K == KAny {
		v, _ := e.fromAny(recv, want, st)
		return v
	}
	return Term{recv.S, want}
}

func (e *Exec) calleeSubst(fi *FuncInfo, recv *Term, c *Ctx, inst []types.Type) map[*types.TypeParam]types.Type {
	sig := fi.Obj.Type().(*types.Signature)
	subst := map[*types.TypeParam]types.Type{}
	if rtp := sig.RecvTypeParams(); rtp != nil && rtp.Len() > 0 && recv != nil && recv.T.G != nil {
		g := recv.T.G
		if p, ok := g.(*types.Pointer); ok {
			g = p.Elem()
		}
		if n, ok := types.Unalias(g).(*types.Named); ok && n.TypeArgs() != nil {
			for i := 0; i < rtp.Len() && i < n.TypeArgs().Len(); i++ {
				subst[rtp.At(i)] = resolve(n.TypeArgs().At(i), c.fr.subst)
			}
		}
	}
	if tp := sig.TypeParams(); tp != nil {
		for i := 0; i < tp.Len() && i < len(inst); i++ {
			subst[tp.At(i)] = resolve(inst[i], c.fr.subst)
		}
	}
	return subst
}

func (e *Exec) inline(fi *FuncInfo, recv *Term, args []Term, call *ast.CallExpr, c *Ctx, inst []types.Type, sel *types.Selection) []Term {
	name := fullName(fi.Obj)
	e.inlined[shortName(name)] = true
	e.stack = append(e.stack, name)
	defer func() { e.stack = e.stack[:len(e.stack)-1] }()
	fr := e.newFrame(fi, c.fr, e.calleeSubst(fi, recv, c, inst))
	// loops of the top function that moved into this (new, contract-less) helper keep the ordinals its contract knows
	// them by; names of loop clauses are looked up here first, then in the calling frames
	if top := topFrameOf(c.fr); top != nil && top.contract != nil && len(top.contract.LoopRemap) > 0 {
		var ords map[ast.Node]int
		ast.Inspect(fi.Decl.Body, func(x ast.Node) bool {
			if o, ok := top.contract.LoopRemap[x]; ok {
				if ords == nil {
					ords = map[ast.Node]int{}
				}
				ords[x] = o
			}
			return true
		})
		if ords != nil {
			fr.hosted, fr.contract, fr.loopOrd, fr.entry = true, top.contract, ords, top.entry
		}
	}
	// promoted method through embedded fields: walk the implicit path
	if recv != nil && sel != nil && len(sel.Index()) > 1 {
		cur := *recv
		rt := sel.Recv()
		for _, ix := range sel.Index()[:len(sel.Index())-1] {
			if p, ok := rt.(*types.Pointer); ok {
				rt = p.Elem()
			}
			st, ok := rt.Underlying().(*types.Struct)
			if !ok {
				break
			}
			f := st.Field(ix)
			if v, ok := e.selectField(cur, f.Name(), c, call); ok {
				cur = v
			}
			rt = f.Type()
		}
		recv = &cur
	}
	savedPos := e.curPos
	e.bindParams(fr, fi.Decl.Type, fi.Decl.Recv, c.st, recv, args)
	fl := e.block(fi.Decl.Body.List, c.st, fr)
	rets := fl.rets
	if !fl.norm.dead() {
		r := &Ret{st: fl.norm}
		for i, k := range fr.resKeys {
			if k != "" {
				r.vals = append(r.vals, e.get(fl.norm, k, fr.resTypes[i]))
			} else {
				r.vals = append(r.vals, e.Zero(fr.resTypes[i]))
			}
		}
		rets = append(rets, r)
	}
	var states []*State
	for _, r := range rets {
		e.finishReturn(r, fr)
		for i, v := range r.vals {
			e.set(r.st, fmt.Sprintf("$ret!%d!%d", fr.depth, i), v)
		}
		states = append(states, r.st)
	}
	m := e.merge(states)
	*c.st = *m
	e.curPos = savedPos
	var out []Term
	for i, t := range fr.resTypes {
		k := fmt.Sprintf("$ret!%d!%d", fr.depth, i)
		if v, ok := c.st.vars[k]; ok {
			out = append(out, v)
			delete(c.st.vars, k)
		} else {
			out = append(out, Term{e.vc.FreshConst("dead", e.Sort(t)), t})
		}
	}
	return out
}

func (e *Exec) inlineLit(fl *ast.FuncLit, args []Term, c *Ctx, want int) []Term {
	fr := &Frame{fi: c.fr.fi, info: c.fr.info, pkg: c.fr.pkg, subst: c.fr.subst, names: c.fr.names, ntypes: c.fr.ntypes,
		closures: c.fr.closures, parent: c.fr, depth: c.fr.depth + 1}
	e.bindParams(fr, fl.Type, nil, c.st, nil, args)
	flow := e.block(fl.Body.List, c.st, fr)
	rets := flow.rets
	if !flow.norm.dead() {
		r := &Ret{st: flow.norm}
		for i, k := range fr.resKeys {
			if k != "" {
				r.vals = append(r.vals, e.get(flow.norm, k, fr.resTypes[i]))
			} else {
				r.vals = append(r.vals, e.Zero(fr.resTypes[i]))
			}
		}
		rets = append(rets, r)
	}
	var states []*State
	for _, r := range rets {
		// deferred calls of the literal
		dl := r.st.defers[fr]
		delete(r.st.defers, fr)
		for i := len(dl) - 1; i >= 0; i-- {
			e.call(dl[i].call, e.ctx(r.st, fr), 0)
		}
		for i, v := range r.vals {
			e.set(r.st, fmt.Sprintf("$ret!%d!%d", fr.depth, i), v)
		}
		states = append(states, r.st)
	}
	m := e.merge(states)
	*c.st = *m
	var out []Term
	for i, t := range fr.resTypes {
		k := fmt.Sprintf("$ret!%d!%d", fr.depth, i)
		if v, ok := c.st.vars[k]; ok {
			out = append(out, v)
			delete(c.st.vars, k)
		} else {
			out = append(out, Term{e.vc.FreshConst("dead", e.Sort(t)), t})
		}
	}
	return out
}

// ---------------------------------------------------------------- modular calls

// contractScope builds the name bindings of a contract at a call site.
func (e *Exec) contractScope(ct *Contract, fn *types.Func, sig *types.Signature, recv *Term, args []Term) (map[string]Term, *Frame) {
	bound := map[string]Term{}
	var pnames []string
	if len(ct.Params) > 0 {
		pnames = ct.Params
	} else if sig != nil {
		for i := 0; i < sig.Params().Len(); i++ {
			pnames = append(pnames, sig.Params().At(i).Name())
		}
	}
	for i, n := range pnames {
		if i < len(args) && n != "" && n != "_" {
			bound[n] = args[i]
		}
	}
	if recv != nil {
		rn := ct.Recv
		if rn == "" && fn != nil {
			if fi := e.prog.funcs[fullName(fn)]; fi != nil && fi.Decl.Recv != nil && len(fi.Decl.Recv.List) > 0 && len(fi.Decl.Recv.List[0].Names) > 0 {
				rn = fi.Decl.Recv.List[0].Names[0].Name
			}
		}
		if rn == "" && sig != nil && sig.Recv() != nil {
			rn = sig.Recv().Name()
		}
		if rn == "" {
			rn = "self"
		}
		bound[rn] = *recv
		bound["self"] = *recv
	}
	pk := e.prog.pkgs[ct.PkgPath]
	fr := &Frame{pkg: pk, names: map[string]string{}, ntypes: map[string]*Type{}, closures: map[string]*ast.FuncLit{}}
	if pk != nil {
		fr.info = pk.TypesInfo
	}
	// locals of the callee that its clauses mention are existential witnesses at a call site: fresh constants
	if fn != nil && ct.Kind == "func" {
		if fi := e.prog.funcs[fullName(fn)]; fi != nil {
			mentioned := map[string]bool{}
			for _, cl := range append(append([]Clause{}, ct.Ensures...), ct.Requires...) {
				ast.Inspect(cl.Expr, func(n ast.Node) bool {
					if id, ok := n.(*ast.Ident); ok {
						mentioned[id.Name] = true
					}
					return true
				})
			}
			ast.Inspect(fi.Decl.Body, func(n ast.Node) bool {
				id, ok := n.(*ast.Ident)
				if !ok || !mentioned[id.Name] {
					return true
				}
				if _, done := bound[id.Name]; done {
					return true
				}
				if v, ok := fi.Pkg.TypesInfo.Defs[id].(*types.Var); ok && !v.IsField() {
					t := e.prog.TypeOf(v.Type(), nil)
					bound[id.Name] = Term{e.vc.FreshConst("callee_"+id.Name, e.Sort(t)), t}
				}
				return true
			})
		}
	}
	return bound, fr
}

func resultNames(ct *Contract, n int, sig *types.Signature) []string {
	if len(ct.Results) > 0 {
		return ct.Results
	}
	var out []string
	for i := 0; i < n; i++ {
		nm := fmt.Sprintf("result%d", i)
		if n == 1 {
			nm = "result"
		}
		out = append(out, nm)
	}
	return out
}

func (e *Exec) applyContract(ct *Contract, fn *types.Func, sig *types.Signature, recv *Term, args []Term, call *ast.CallExpr, c *Ctx) []Term {
	cname := ct.Key
	if ct.Trusted {
		e.externs[ct.Kind+" "+ct.Target+" (trusted contract, "+shortFile(ct.File)+")"] = true
	}
	// coerce args to parameter types
	var subst map[*types.TypeParam]types.Type
	if fn != nil {
		if fi := e.prog.funcs[fullName(fn)]; fi != nil {
			subst = e.calleeSubst(fi, recv, c, e.curInst)
		}
	}
	if subst == nil {
		subst = c.fr.subst
	}
	if sig != nil {
		for i := range args {
			if i < sig.Params().Len() {
				args[i] = e.coerce(args[i], e.prog.TypeOf(sig.Params().At(i).Type(), subst), c.st)
			}
		}
		if recv != nil && sig.Recv() != nil {
			rt := e.prog.TypeOf(sig.Recv().Type(), subst)
			if rt.K != KAny {
				r := e.adaptRecv(*recv, rt, c.st)
				recv = &r
			}
		}
	}
	bound, cfr := e.contractScope(ct, fn, sig, recv, args)
	if fn != nil {
		if fi := e.prog.funcs[fullName(fn)]; fi != nil {
			cfr.fi = fi // type parameters of the callee are resolved through its substitution at this call
			cfr.subst = subst
		}
	}
	pre := c.st.clone()
	// pre-conditions
	for _, rq := range ct.Requires {
		sc := &Ctx{st: c.st, fr: cfr, spec: true, bound: bound, old: pre}
		phi := e.evalCond(rq.Expr, sc)
		name := fmt.Sprintf("%s#pre[%s:%s]", e.fnName, cname, rq.Label)
		if e.inSpawn {
			// a goroutine starts from an arbitrary later state: pre-conditions of its callees are the callees' data
			// invariants, assumed here (the goroutine is checked for its frame and the monitor invariants only)
			e.assume(c.st, phi)
			continue
		}
		preCheckedOf.Store(ct.PkgName+"."+ct.Key, true)
		e.assert(c.st, name, "precondition", phi, rq.Text, e.prog.pos(call), e.modelVars(c.st, c.fr))
	}
	// termination of mutual recursion: functions whose decreases clause carries the same group ("decreases[group/level] m")
	// call each other only with a smaller measure, or with the same measure and a smaller level
	if e.topCon != nil && ct != e.topCon && ct.Decr != nil && e.topCon.Decr != nil && decrGroup(ct.Decr.Label) != "" && decrGroup(ct.Decr.Label) == decrGroup(e.topCon.Decr.Label) && !e.inSpawn {
		sc := &Ctx{st: c.st, fr: cfr, spec: true, bound: bound, old: pre}
		newM := e.eval(ct.Decr.Expr, sc)
		top := c.fr
		for top != nil && !top.top {
			top = top.parent
		}
		if top != nil && top.entry != nil {
			oc := &Ctx{st: top.entry, fr: top, spec: true, old: top.entry}
			oldM := e.eval(e.topCon.Decr.Expr, oc)
			lvl := "false"
			if decrLevel(ct.Decr.Label) < decrLevel(e.topCon.Decr.Label) {
				lvl = "true"
			}
			e.assert(c.st, fmt.Sprintf("%s#decreases[%s->%s]", e.fnName, e.topCon.Decr.Label, ct.Decr.Label), "termination",
				fmt.Sprintf("(and (<= 0 %s) (or (< %s %s) (and (= %s %s) %s)))", newM.S, newM.S, oldM.S, newM.S, oldM.S, lvl), ct.Decr.Text, e.prog.pos(call), e.modelVars(c.st, c.fr))
		}
	}
	// termination of self-recursion: the measure decreases and is bounded below
	if ct == e.topCon && ct.Decr != nil {
		sc := &Ctx{st: c.st, fr: cfr, spec: true, bound: bound, old: pre}
		newM := e.eval(ct.Decr.Expr, sc)
		top := c.fr
		for top != nil && !top.top {
			top = top.parent
		}
		if top != nil && top.entry != nil {
			oc := &Ctx{st: top.entry, fr: top, spec: true, old: top.entry}
			oldM := e.eval(ct.Decr.Expr, oc)
			e.assert(c.st, fmt.Sprintf("%s#decreases[%s]", e.fnName, ct.Decr.Label), "termination", fmt.Sprintf("(and (<= 0 %s) (< %s %s))", newM.S, newM.S, oldM.S), ct.Decr.Text, e.prog.pos(call), e.modelVars(c.st, c.fr))
		}
	}
	if ct.Allocs {
		at := &Type{K: KGMap, Key: tInt, Elem: tBool}
		oldA := e.get(c.st, "$alloc", at)
		newA := e.havocKey(c.st, "$alloc", at)
		e.assume(c.st, fmt.Sprintf("(forall ((o!a Int)) (! (=> (select %s o!a) (select %s o!a)) :pattern ((select %s o!a))))", oldA.S, newA.S, oldA.S))
		// objects allocated by the callee are of the kinds it declares
		var kinds []string
		anyKind := false
		for _, k := range ct.AllocT {
			e.allocKinds[k] = true
			if k == "any" {
				anyKind = true // "allocates any": objects of every kind may have been allocated
				continue
			}
			kinds = append(kinds, fmt.Sprintf("(= (rtype o!a) %d)", e.rtypeTag(k)))
		}
		if len(kinds) > 0 && !anyKind {
			e.assume(c.st, fmt.Sprintf("(forall ((o!a Int)) (! (=> (and (select %s o!a) (not (select %s o!a))) (or %s)) :pattern ((select %s o!a))))", newA.S, oldA.S, strings.Join(kinds, " "), newA.S))
		}
	}
	// frame
	if ct.Kind == "func" && !ct.HasMod {
		e.note("callee %s has a contract without a modifies clause: heap havocked at the call", cname)
		e.havocAll(c.st)
	}
	for _, m := range ct.Modifies {
		e.havocTarget(m, c.st, cfr, bound)
	}
	// results
	var rts []*Type
	if sig != nil {
		for i := 0; i < sig.Results().Len(); i++ {
			rts = append(rts, e.prog.TypeOf(sig.Results().At(i).Type(), subst))
		}
	}
	var out []Term
	rn := resultNames(ct, len(rts), sig)
	b2 := map[string]Term{}
	for k, v := range bound {
		b2[k] = v
	}
	for i, rt := range rts {
		v := Term{e.vc.FreshConst("res_"+mangle(cname), e.Sort(rt)), rt}
		out = append(out, v)
		if i < len(rn) {
			b2[rn[i]] = v
		}
		if sig.Results().At(i).Name() != "" {
			b2[sig.Results().At(i).Name()] = v
		}
		if rt.K == KSlice {
			e.assume(c.st, fmt.Sprintf("(>= %s 0)", e.seqLen(v)))
		}
	}
	savedSnap := c.st.lockSnap
	for _, en := range ct.Ensures {
		if en.Mode == "seq" && e.mode == "conc" {
			continue
		}
		if strings.Contains(en.Text, "atlock(") {
			if e.mode == "conc" {
				continue // the callee's acquire-time state is unknown to the caller under interference
			}
			c.st.lockSnap = pre
		}
		sc := &Ctx{st: c.st, fr: cfr, spec: true, bound: b2, old: pre}
		e.assume(c.st, e.evalCond(en.Expr, sc))
	}
	c.st.lockSnap = savedSnap
	return out
}

// havocTarget havocs one modifies target.
func (e *Exec) havocTarget(m ast.Expr, st *State, fr *Frame, bound map[string]Term) {
	sc := &Ctx{st: st, fr: fr, spec: true, bound: bound}
	switch x := m.(type) {
	case *ast.Ident:
		if x.Name == "heap" {
			e.havocAll(st)
			return
		}
		if g, ok := e.prog.ghostVars[x.Name]; ok {
			e.havocKey(st, "GV!"+g.Name, g.Type)
			return
		}
		if x.Name == "now" {
			e.advanceTime(st, "0")
			return
		}
	case *ast.StarExpr:
		// modifies *p: the cell p points to
		p := e.eval(x.X, sc)
		if p.T.K == KRef && p.T.Name == "" && p.T.Elem != nil {
			at := &Type{K: KGMap, Key: tInt, Elem: p.T.Elem}
			key := "P!" + mangle(e.Sort(p.T.Elem))
			h := e.get(st, key, at)
			nv := e.vc.FreshConst("hv_cell", e.Sort(p.T.Elem))
			e.set(st, key, Term{fmt.Sprintf("(store %s %s %s)", h.S, p.S, nv), at})
			return
		}
	case *ast.SelectorExpr:
		base := e.eval(x.X, sc)
		path := e.findField(base.T, x.Sel.Name, 0)
		if path != nil && base.T.K == KRef && len(path) == 1 {
			f := path[0]
			h := e.heapArr(st, base.T.Name, f)
			nv := e.vc.FreshConst("hv_"+f.Name, e.Sort(f.Type))
			e.set(st, heapKey(base.T.Name, f.Name), Term{fmt.Sprintf("(store %s %s %s)", h.S, base.S, nv), h.T})
			return
		}
	case *ast.CallExpr:
		if id, ok := x.Fun.(*ast.Ident); ok {
			switch id.Name {
			case "mapof":
				mv := e.eval(x.Args[0], sc)
				if mv.T.K == KMap {
					da := e.mapDomArr(st, mv.T)
					va := e.mapValArr(st, mv.T)
					nd := e.vc.FreshConst("hv_dom", fmt.Sprintf("(Array %s Bool)", e.Sort(mv.T.Key)))
					nv := e.vc.FreshConst("hv_val", fmt.Sprintf("(Array %s %s)", e.Sort(mv.T.Key), e.Sort(mv.T.Elem)))
					e.set(st, "MD!"+mapKeyName(e, mv.T), Term{fmt.Sprintf("(store %s %s %s)", da.S, mv.S, nd), da.T})
					e.set(st, "MV!"+mapKeyName(e, mv.T), Term{fmt.Sprintf("(store %s %s %s)", va.S, mv.S, nv), va.T})
					return
				}
			case "heap":
				e.havocAll(st)
				return
			case "now":
				e.advanceTime(st, "0")
				return
			case "ovof":
				so, fld := e.syncMapOwner(x.Args[0], sc)
				at := &Type{K: KGMap, Key: tInt, Elem: tAny}
				oa := e.get(st, "OV!"+fld, at)
				e.set(st, "OV!"+fld, Term{fmt.Sprintf("(store %s %s %s)", oa.S, so.S, e.vc.FreshConst("hv_ov", "Any")), at})
				return
			case "opall":
				if se, ok := x.Args[0].(*ast.SelectorExpr); ok {
					t := e.specType(se.X, sc)
					e.havocKey(st, "OP!"+t.Name+"!"+se.Sel.Name, &Type{K: KGMap, Key: tInt, Elem: tInt})
					return
				}
			case "cell":
				pv := e.eval(x.Args[0], sc)
				if pv.T.K == KRef && pv.T.Name == "" {
					at := &Type{K: KGMap, Key: tInt, Elem: pv.T.Elem}
					key := "P!" + mangle(e.Sort(pv.T.Elem))
					h := e.get(st, key, at)
					e.set(st, key, Term{fmt.Sprintf("(store %s %s %s)", h.S, pv.S, e.vc.FreshConst("hv_cell", e.Sort(pv.T.Elem))), at})
					return
				}
			case "opof":
				so, fld := e.syncMapOwner(x.Args[0], sc)
				at := &Type{K: KGMap, Key: tInt, Elem: tInt}
				oa := e.get(st, "OP!"+fld, at)
				e.set(st, "OP!"+fld, Term{fmt.Sprintf("(store %s %s %s)", oa.S, so.S, e.vc.FreshConst("hv_op", "Int")), at})
				return
			case "smapof":
				so, fld := e.syncMapOwner(x.Args[0], sc)
				d, va := e.syncMapArrs(st, so, fld)
				nd := e.vc.FreshConst("hv_smdom", "(Array Any Bool)")
				nv := e.vc.FreshConst("hv_smval", "(Array Any Any)")
				e.set(st, "SM!"+fld+"!dom", Term{fmt.Sprintf("(store %s %s %s)", d.S, so.S, nd), d.T})
				e.set(st, "SM!"+fld+"!val", Term{fmt.Sprintf("(store %s %s %s)", va.S, so.S, nv), va.T})
				return
			case "allof":
				// allof(T.f): the whole field array of struct T (spec type)
				if se, ok := x.Args[0].(*ast.SelectorExpr); ok {
					t := e.specType(se.X, sc)
					path := e.findField(t, se.Sel.Name, 0)
					if path != nil {
						h := e.heapArr(st, t.Name, path[0])
						e.havocKey(st, heapKey(t.Name, path[0].Name), h.T)
						return
					}
				}
			}
		}
	}
	e.errorf("unsupported modifies target %s", exprText(m))
}

// ---------------------------------------------------------------- spec-level calls

func (e *Exec) specCall(call *ast.CallExpr, c *Ctx) Term {
	if id, ok := call.Fun.(*ast.Ident); ok {
		switch id.Name {
		case "implies__":
			return Term{fmt.Sprintf("(=> %s %s)", e.evalCond(call.Args[0], c), e.evalCond(call.Args[1], c)), tBool}
		case "iff__":
			return Term{fmt.Sprintf("(= %s %s)", e.evalCond(call.Args[0], c), e.evalCond(call.Args[1], c)), tBool}
		case "old":
			if c.old == nil {
				e.errorf("%s: old() without a pre-state", e.curPos)
				return e.eval(call.Args[0], c)
			}
			c2 := *c
			c2.st = c.old
			if c2.cur == nil {
				c2.cur = c.st
			}
			return e.eval(call.Args[0], &c2)
		case "ite":
			cnd := e.evalCond(call.Args[0], c)
			a := e.eval(call.Args[1], c)
			b := e.eval(call.Args[2], c)
			if a.T.K == KReal || b.T.K == KReal {
				a, b = e.toReal(a), e.toReal(b)
			}
			if a.T.K == KNil {
				a = e.Zero(b.T)
			}
			if b.T.K == KNil {
				b = e.Zero(a.T)
			}
			return Term{fmt.Sprintf("(ite %s %s %s)", cnd, a.S, b.S), a.T}
		case "forall", "exists":
			q := id.Name
			if len(call.Args) == 3 {
				vn := call.Args[0].(*ast.Ident).Name
				t := e.specType(call.Args[1], c)
				bv := fmt.Sprintf("%s!q%d", vn, e.nextQ())
				body := e.evalCond(call.Args[2], c.with(vn, Term{bv, t}))
				return Term{fmt.Sprintf("(%s ((%s %s)) %s)", q, bv, e.Sort(t), body), tBool}
			}
			if len(call.Args) == 4 {
				vn := call.Args[0].(*ast.Ident).Name
				lo := e.eval(call.Args[1], c)
				hi := e.eval(call.Args[2], c)
				bv := fmt.Sprintf("%s!q%d", vn, e.nextQ())
				body := e.evalCond(call.Args[3], c.with(vn, Term{bv, tInt}))
				if q == "forall" {
					return Term{fmt.Sprintf("(forall ((%s Int)) (=> (and (<= %s %s) (< %s %s)) %s))", bv, lo.S, bv, bv, hi.S, body), tBool}
				}
				return Term{fmt.Sprintf("(exists ((%s Int)) (and (<= %s %s) (< %s %s) %s))", bv, lo.S, bv, bv, hi.S, body), tBool}
			}
		case "in":
			k := e.eval(call.Args[0], c)
			m := e.eval(call.Args[1], c)
			switch m.T.K {
			case KMap:
				k = e.coerce(k, m.T.Key, c.st)
				return Term{fmt.Sprintf("(and (not (= %s 0)) (select %s %s))", m.S, e.mapDom(c.st, m), k.S), tBool}
			case KGMap:
				return Term{fmt.Sprintf("(select %s %s)", m.S, e.coerce(k, m.T.Key, c.st).S), tBool}
			case KSlice:
				bv := fmt.Sprintf("j!q%d", e.nextQ())
				return Term{fmt.Sprintf("(exists ((%s Int)) (and (<= 0 %s) (< %s %s) (= (select %s %s) %s)))", bv, bv, bv, e.seqLen(m), e.seqArr(m), bv, k.S), tBool}
			}
		case "len":
			v := e.eval(call.Args[0], c)
			switch v.T.K {
			case KSlice:
				return Term{e.seqLen(v), tInt}
			case KMap:
				return Term{fmt.Sprintf("(ite (= %s 0) 0 %s)", v.S, e.mapLen(c.st, v)), tInt}
			case KStr:
				return Term{e.strLen(v), tInt}
			}
		case "now":
			return e.now(c.st)
		case "atlock":
			if c.st.lockSnap == nil {
				e.errorf("%s: atlock() but no lock was acquired", e.curPos)
				return e.eval(call.Args[0], c)
			}
			c2 := *c
			c2.st = c.st.lockSnap
			return e.eval(call.Args[0], &c2)
		case "floormul":
			a := e.eval(call.Args[0], c)
			b := e.eval(call.Args[1], c)
			return Term{e.floorMul(a.S, b.S), a.T}
		case "allocated":
			v := e.eval(call.Args[0], c)
			al := e.get(c.st, "$alloc", &Type{K: KGMap, Key: tInt, Elem: tBool})
			return Term{fmt.Sprintf("(and (select %s %s) (= (rtype %s) %d))", al.S, v.S, v.S, e.rtypeTag(refKind(v.T))), tBool}
		case "second":
			// second(x.M(args)): the second result of a pure two-result method
			if inner, ok := call.Args[0].(*ast.CallExpr); ok {
				if se, ok := inner.Fun.(*ast.SelectorExpr); ok {
					base := e.eval(se.X, c)
					var args []Term
					for _, a := range inner.Args {
						args = append(args, e.eval(a, c))
					}
					if base.T.G != nil {
						obj, _, _ := types.LookupFieldOrMethod(base.T.G, true, nil, se.Sel.Name)
						if fn, ok := obj.(*types.Func); ok {
							sig := fn.Type().(*types.Signature)
							if sig.Results().Len() > 1 {
								rt := e.prog.TypeOf(sig.Results().At(1).Type(), base.T.Subst)
								return e.uninterp(fmt.Sprintf("fn!%s!1", mangle(shortName(fullName(fn)))), append([]Term{base}, args...), rt)
							}
						}
					}
				}
			}
			e.errorf("%s: second() needs a pure two-result method call", e.curPos)
			return Term{"false", tBool}
		case "fresh_since_entry":
			// fresh_since_entry(o): o is not an object that existed when the function was called (whatever its kind)
			v := e.eval(call.Args[0], c)
			st0 := c.old
			if st0 == nil {
				st0 = c.st
			}
			al := e.get(st0, "$alloc", &Type{K: KGMap, Key: tInt, Elem: tBool})
			return Term{fmt.Sprintf("(not (select %s %s))", al.S, v.S), tBool}
		case "allocated_at_entry":
			v := e.eval(call.Args[0], c)
			st0 := c.old
			if st0 == nil {
				st0 = c.st
			}
			al := e.get(st0, "$alloc", &Type{K: KGMap, Key: tInt, Elem: tBool})
			return Term{fmt.Sprintf("(and (select %s %s) (= (rtype %s) %d))", al.S, v.S, v.S, e.rtypeTag(refKind(v.T))), tBool}
		case "held":
			// held(x.mutex)
			if se, ok := call.Args[0].(*ast.SelectorExpr); ok {
				owner := e.eval(se.X, c)
				h := e.heldArr(c.st, owner.T.Name, se.Sel.Name)
				hw := e.heldArr(c.st, owner.T.Name, se.Sel.Name+"!w")
				return Term{fmt.Sprintf("(and (select %s %s) (select %s %s))", h.S, owner.S, hw.S, owner.S), tBool}
			}
		case "typeis":
			v := e.eval(call.Args[0], c)
			t := e.specType(call.Args[1], c)
			_, ok := e.fromAny(v, t, c.st)
			return Term{ok, tBool}
		case "box":
			v := e.eval(call.Args[0], c)
			if len(call.Args) > 1 {
				v = Term{v.S, e.specType(call.Args[1], c)}
			}
			return e.toAny(v, c.st)
		case "ifacenil":
			// ifacenil(i): the interface value is nil or holds a nil pointer/map/channel/function (reflect-style nil test)
			v := e.eval(call.Args[0], c)
			if v.T.K != KAny {
				return Term{e.eqTerm(v, Term{"0", tNil}, c.st), tBool}
			}
			return Term{fmt.Sprintf("(or (= %s A_nil) (and ((_ is A_box) %s) (ptrtag (a_tag %s)) (= (a_val %s) 0)))", v.S, v.S, v.S, v.S), tBool}
		case "isnil":
			v := e.eval(call.Args[0], c)
			return Term{e.eqTerm(v, Term{"0", tNil}, c.st), tBool}
		case "dom":
			m := e.eval(call.Args[0], c)
			return Term{e.mapDom(c.st, m), &Type{K: KGMap, Key: m.T.Key, Elem: tBool}}
		case "vals":
			m := e.eval(call.Args[0], c)
			return Term{e.mapVal(c.st, m), &Type{K: KGMap, Key: m.T.Key, Elem: m.T.Elem}}
		case "smap":
			// smap(x.f): the (dom, val) view of a sync.Map field: smapdom / smapval
		case "str2bytes":
			v := e.eval(call.Args[0], c)
			bt := &Type{K: KSlice, Elem: &Type{K: KInt, G: types.Typ[types.Uint8]}, G: types.NewSlice(types.Typ[types.Uint8])}
			return e.uninterp("str2bytes", []Term{v}, bt)
		case "chcap":
			ch := e.eval(call.Args[0], c)
			ca := e.get(c.st, "H!$chan!cap", &Type{K: KGMap, Key: tInt, Elem: tInt})
			return Term{fmt.Sprintf("(select %s %s)", ca.S, ch.S), tInt}
		case "parkedrecv":
			ch := e.eval(call.Args[0], c)
			e.vc.Decl("fun:parkedrecv", "(declare-fun parkedrecv (Int Int) Bool)")
			return Term{fmt.Sprintf("(parkedrecv %s %s)", ch.S, e.now(c.st).S), tBool}
		case "subsetcard":
			// subsetcard(a, b): true; brings in the instance, for the key sets of these two maps, of the fact that a subset
			// has at most as many elements (card is an uninterpreted function of the key set otherwise)
			a := e.eval(call.Args[0], c)
			b := e.eval(call.Args[1], c)
			if a.T.K == KMap && b.T.K == KMap && e.Sort(a.T.Key) == e.Sort(b.T.Key) {
				da, db := e.mapDom(c.st, a), e.mapDom(c.st, b)
				ca, cb := e.cardFn(a.T), e.cardFn(b.T)
				ks := e.Sort(a.T.Key)
				qv := fmt.Sprintf("k!sc%d", e.nextQ())
				// an instance of a theorem about finite sets: a fact of the VC, not something to be proved
				e.vc.Fact(fmt.Sprintf("(=> (forall ((%s %s)) (=> (select %s %s) (select %s %s))) (<= (%s %s) (%s %s)))", qv, ks, da, qv, db, qv, ca, da, cb, db))
				e.externs["finite-set fact: a subset has at most as many elements (instances requested by subsetcard(...))"] = true
				return Term{"true", tBool}
			}
			e.errorf("%s: subsetcard needs two maps with the same key type", e.curPos)
			return Term{"true", tBool}
		case "msum":
			m := e.eval(call.Args[0], c)
			return Term{e.msumTerm(e.mapDom(c.st, m), e.mapVal(c.st, m), m.T), m.T.Elem}
		case "msumset":
			set := e.eval(call.Args[0], c)
			m := e.eval(call.Args[1], c)
			return Term{e.msumTerm(set.S, e.mapVal(c.st, m), m.T), m.T.Elem}
		case "wgcount", "atomicval":
			owner, fld := e.syncMapOwner(call.Args[0], c)
			arr := e.get(c.st, "OP!"+fld, &Type{K: KGMap, Key: tInt, Elem: tInt})
			return Term{fmt.Sprintf("(select %s %s)", arr.S, owner.S), tInt}
		case "atomicvalue":
			// what an atomic.Value field holds (an interface value)
			owner, fld := e.syncMapOwner(call.Args[0], c)
			arr := e.get(c.st, "OV!"+fld, &Type{K: KGMap, Key: tInt, Elem: tAny})
			return Term{fmt.Sprintf("(select %s %s)", arr.S, owner.S), tAny}
		case "smapin":
			owner, fld := e.syncMapOwner(call.Args[0], c)
			k := e.toAny(e.eval(call.Args[1], c), c.st)
			d, _ := e.syncMapArrs(c.st, owner, fld)
			return Term{fmt.Sprintf("(select (select %s %s) %s)", d.S, owner.S, k.S), tBool}
		case "smapget":
			owner, fld := e.syncMapOwner(call.Args[0], c)
			k := e.toAny(e.eval(call.Args[1], c), c.st)
			_, v := e.syncMapArrs(c.st, owner, fld)
			return Term{fmt.Sprintf("(select (select %s %s) %s)", v.S, owner.S, k.S), tAny}
		case "sprintf":
			var args []Term
			for _, a := range call.Args {
				args = append(args, e.eval(a, c))
			}
			return e.sprintf(args, c.st)
		case "ceil":
			v := e.toReal(e.eval(call.Args[0], c))
			return e.ceil(v)
		case "real":
			return e.toReal(e.eval(call.Args[0], c))
		case "toint":
			v := e.eval(call.Args[0], c)
			return Term{fmt.Sprintf("(to_int %s)", v.S), tInt}
		case "div":
			a := e.eval(call.Args[0], c)
			b := e.eval(call.Args[1], c)
			return Term{fmt.Sprintf("(div %s %s)", a.S, b.S), tInt}
		case "seqeq":
			// pointwise equality of two sequences
			a := e.eval(call.Args[0], c)
			b := e.eval(call.Args[1], c)
			bv := fmt.Sprintf("j!q%d", e.nextQ())
			return Term{fmt.Sprintf("(and (= %s %s) (forall ((%s Int)) (=> (and (<= 0 %s) (< %s %s)) (= (select %s %s) (select %s %s)))))",
				e.seqLen(a), e.seqLen(b), bv, bv, bv, e.seqLen(a), e.seqArr(a), bv, e.seqArr(b), bv), tBool}
		}
		if c.fr.pkg != nil && c.fr.pkg.Types != nil {
			if fn, ok := c.fr.pkg.Types.Scope().Lookup(id.Name).(*types.Func); ok && (e.prog.isPure(fn) || e.prog.contractFor(fn) == nil) {
				// a Go function used as an observer in a specification: the same uninterpreted symbol as a pure call in code
				if !e.prog.isPure(fn) {
					e.errorf("%s: spec calls Go function %s which is not declared pure", e.curPos, id.Name)
				}
				var args []Term
				sig := fn.Type().(*types.Signature)
				for i, a := range call.Args {
					v := e.eval(a, c)
					if i < sig.Params().Len() {
						v = e.coerce(v, e.prog.TypeOf(sig.Params().At(i).Type(), nil), c.st)
					}
					args = append(args, v)
				}
				rt := tInt
				if sig.Results().Len() > 0 {
					rt = e.prog.TypeOf(sig.Results().At(0).Type(), nil)
				}
				return e.uninterp(fmt.Sprintf("fn!%s!0", mangle(shortName(fullName(fn)))), args, rt)
			}
		}
		if gf, ok := e.prog.ghostFuncs[id.Name]; ok {
			var args []Term
			for i, a := range call.Args {
				v := e.eval(a, c)
				if i < len(gf.PT) {
					v = e.coerce(v, gf.PT[i], c.st)
				}
				args = append(args, v)
			}
			if gf.Spec && c.st.tmpl == nil {
				return e.specFnCall(gf, args, c)
			}
			if gf.Body != nil {
				// macro expansion
				gfr := c.fr
				if gpk := e.prog.pkgs[gf.PkgPath]; gpk != nil && (c.fr.pkg == nil || c.fr.pkg.PkgPath != gf.PkgPath) {
					gfr = &Frame{pkg: gpk, info: gpk.TypesInfo, names: map[string]string{}, ntypes: map[string]*Type{}, closures: map[string]*ast.FuncLit{}}
				}
				c2 := &Ctx{st: c.st, old: c.old, fr: gfr, spec: true, bound: map[string]Term{}}
				if gfr == c.fr {
					for k, v := range c.bound {
						c2.bound[k] = v
					}
				} else {
					// only quantified variables stay visible inside a macro of another package
					for k, v := range c.bound {
						if hasBound(v.S) {
							c2.bound[k] = v
						}
					}
				}
				for i, p := range gf.Params {
					if i < len(args) {
						c2.bound[p] = args[i]
					}
				}
				r := e.eval(gf.Body, c2)
				return e.coerce(r, gf.Ret, c.st)
			}
			return e.uninterp("gf!"+gf.Name, args, gf.Ret)
		}
	}
	// package-qualified pure function (strconv.ParseFloat, ...)
	if se, ok := call.Fun.(*ast.SelectorExpr); ok {
		if pid, ok := se.X.(*ast.Ident); ok && c.fr.pkg != nil {
			if _, isLocal := c.fr.names[pid.Name]; !isLocal && c.bound[pid.Name].T == nil {
				for _, imp := range c.fr.pkg.Types.Imports() {
					if imp.Name() != pid.Name {
						continue
					}
					if tn, ok := imp.Scope().Lookup(se.Sel.Name).(*types.TypeName); ok && len(call.Args) == 1 {
						// conversion to a named type of an imported package (urltree.Method(s))
						return e.convert(e.eval(call.Args[0], c), e.prog.TypeOf(tn.Type(), nil), c)
					}
					if fn, ok := imp.Scope().Lookup(se.Sel.Name).(*types.Func); ok {
						var args []Term
						sig := fn.Type().(*types.Signature)
						for i, a := range call.Args {
							v := e.eval(a, c)
							if i < sig.Params().Len() {
								v = e.coerce(v, e.prog.TypeOf(sig.Params().At(i).Type(), nil), c.st)
							}
							args = append(args, v)
						}
						rt := tInt
						if sig.Results().Len() > 0 {
							rt = e.prog.TypeOf(sig.Results().At(0).Type(), nil)
						}
						return e.uninterp(fmt.Sprintf("fn!%s!0", mangle(shortName(fullName(fn)))), args, rt)
					}
				}
			}
		}
	}
	// method-call syntax on spec values: pure observers and time arithmetic
	if se, ok := call.Fun.(*ast.SelectorExpr); ok {
		base := e.eval(se.X, c)
		var args []Term
		for _, a := range call.Args {
			args = append(args, e.eval(a, c))
		}
		if base.T.G != nil && isTimeType(base.T.G) {
			if r, ok := e.timeMethod(se.Sel.Name, base, args, c); ok {
				return r
			}
		}
		// pure method: uninterpreted function named after the method and the receiver's static type
		rt := e.pureResultType(base, se.Sel.Name, c)
		tn := base.T.String()
		if base.T.G != nil {
			tn = types.TypeString(base.T.G, nil)
		}
		if fnm, ok := e.pureMethodName(base, se.Sel.Name); ok {
			return e.uninterp(fnm, append([]Term{base}, args...), rt)
		}
		return e.uninterp("fn!"+mangle(shortName(tn))+"."+se.Sel.Name+"!0", append([]Term{base}, args...), rt)
	}
	e.errorf("%s: unsupported spec call %s", e.curPos, exprText(call))
	return Term{e.vc.FreshConst("unk", "Int"), tOpaque}
}

// pureMethodName finds the declared method so that spec-level calls and code-level pure calls use the same symbol.
func (e *Exec) pureMethodName(base Term, method string) (string, bool) {
	if base.T.G == nil {
		return "", false
	}
	obj, _, _ := types.LookupFieldOrMethod(base.T.G, true, nil, method)
	if fn, ok := obj.(*types.Func); ok {
		return fmt.Sprintf("fn!%s!0", mangle(shortName(fullName(fn)))), true
	}
	return "", false
}

func (e *Exec) pureResultType(base Term, method string, c *Ctx) *Type {
	if base.T.G != nil {
		obj, _, _ := types.LookupFieldOrMethod(base.T.G, true, nil, method)
		if fn, ok := obj.(*types.Func); ok {
			sig := fn.Type().(*types.Signature)
			if sig.Results().Len() > 0 {
				return e.prog.TypeOf(sig.Results().At(0).Type(), base.T.Subst)
			}
		}
	}
	return tInt
}

func (e *Exec) nextQ() int {
	e.qn++
	return e.qn
}

func isTimeType(t types.Type) bool {
	n, ok := types.Unalias(t).(*types.Named)
	return ok && n.Obj().Pkg() != nil && n.Obj().Pkg().Path() == "time" && n.Obj().Name() == "Time"
}

func isDurationType(t types.Type) bool {
	n, ok := types.Unalias(t).(*types.Named)
	return ok && n.Obj().Pkg() != nil && n.Obj().Pkg().Path() == "time" && n.Obj().Name() == "Duration"
}

// ---------------------------------------------------------------- ghost updates at return

func (e *Exec) runOnReturn(r *Ret, fr *Frame) {
	ct := fr.contract
	if len(ct.OnRet) == 0 {
		return
	}
	bound := e.resultBindings(ct, fr, r)
	for _, or := range ct.OnRet {
		sc := &Ctx{st: r.st, fr: fr, spec: true, bound: bound, old: fr.entry}
		when := "true"
		if or.When != nil {
			when = e.evalCond(or.When, sc)
		}
		for _, a := range or.Assigns {
			rhs := e.eval(a.RHS, sc)
			if when != "true" {
				cur := e.eval(a.LHS, sc)
				rhs = e.coerce(rhs, cur.T, r.st)
				rhs = Term{fmt.Sprintf("(ite %s %s %s)", when, rhs.S, cur.S), cur.T}
			}
			e.assign(a.LHS, rhs, sc)
		}
	}
}

func (e *Exec) resultBindings(ct *Contract, fr *Frame, r *Ret) map[string]Term {
	bound := map[string]Term{}
	rn := resultNames(ct, len(r.vals), nil)
	for i, v := range r.vals {
		if i < len(rn) {
			bound[rn[i]] = v
		}
	}
	// parameters in post-conditions denote their values at entry (Go parameters are mutable locals)
	if fr.fi != nil && fr.entry != nil {
		ftype := fr.fi.Decl.Type
		if ftype.Params != nil {
			for _, f := range ftype.Params.List {
				for _, n := range f.Names {
					if obj := fr.info.Defs[n]; obj != nil {
						if v, ok := fr.entry.vars[e.keyOf(obj)]; ok {
							bound[n.Name] = v
						}
					}
				}
			}
		}
	}
	// positional parameter aliases
	if len(ct.Params) > 0 && fr.fi != nil {
		i := 0
		for _, f := range fr.fi.Decl.Type.Params.List {
			for _, n := range f.Names {
				if i < len(ct.Params) {
					if k, ok := fr.names[n.Name]; ok {
						if v, ok := fr.entry.vars[k]; ok {
							_ = v
						}
						if ev, ok := fr.entry.vars[k]; ok {
							bound[ct.Params[i]] = ev
						} else {
							bound[ct.Params[i]] = e.get(r.st, k, fr.ntypes[n.Name])
						}
					}
				}
				i++
			}
		}
	}
	return bound
}

var _ = token.ADD

// refKind: the allocation kind of a reference type (struct short name, "map", "chan", "cell").
func refKind(t *Type) string {
	switch t.K {
	case KRef:
		if t.Name != "" {
			return shortStructName(t.Name)
		}
		return "cell"
	case KMap:
		return "map"
	case KChan:
		return "chan"
	}
	return "cell"
}

// closedDispatch: case split of an interface method call over the implementing types named by the contract's
// `dispatch` clause; every arm uses that implementation (its contract, or its body inlined). The interface value is
// assumed to hold one of them (closed world, recorded as an assumption).
func (e *Exec) closedDispatch(fn *types.Func, recv Term, args []Term, call *ast.CallExpr, c *Ctx, want int, impls []string, iface string) []Term {
	e.externs["closed world: a "+iface+" value is one of "+strings.Join(impls, ", ")] = true
	base := c.st
	var states []*State
	rts := e.resultTypes(call, c)
	var tagConds []string
	for _, tn := range impls {
		tname := strings.TrimPrefix(strings.TrimSpace(tn), "*")
		var conc *types.Func
		for _, fi := range e.prog.funcs {
			if fi.Obj.Name() != fn.Name() {
				continue
			}
			s := fi.Obj.Type().(*types.Signature)
			if s.Recv() == nil {
				continue
			}
			r := s.Recv().Type()
			if p, ok := r.(*types.Pointer); ok {
				r = p.Elem()
			}
			if nn, ok := types.Unalias(r).(*types.Named); ok && nn.Obj().Name() == tname {
				conc = fi.Obj
			}
		}
		if conc == nil {
			e.errorf("dispatch: no method %s on %s", fn.Name(), tn)
			continue
		}
		csig := conc.Type().(*types.Signature)
		rt := e.prog.TypeOf(csig.Recv().Type(), nil)
		_, isT := e.fromAny(recv, rt, base)
		tagConds = append(tagConds, isT)
		br := base.clone()
		e.assume(br, isT)
		rv := Term{fmt.Sprintf("(a_val %s)", recv.S), rt}
		c2 := *c
		c2.st = br
		res := e.dispatch(conc, &rv, append([]Term{}, args...), call, &c2, want, nil, nil)
		for i, v := range res {
			if i < len(rts) {
				e.set(br, fmt.Sprintf("$disp!%d!%d", int(call.Pos()), i), e.coerce(v, rts[i], br))
			}
		}
		states = append(states, br)
	}
	if len(states) == 0 {
		return e.havocCall(call, c, want, "dispatch "+iface)
	}
	m := e.merge(states)
	*c.st = *m
	var out []Term
	for i, t := range rts {
		k := fmt.Sprintf("$disp!%d!%d", int(call.Pos()), i)
		if v, ok := c.st.vars[k]; ok {
			out = append(out, v)
			delete(c.st.vars, k)
		} else {
			out = append(out, Term{e.vc.FreshConst("dead", e.Sort(t)), t})
		}
	}
	return out
}

// specDef: a spec function, sf!name(params..., heap arrays it reads...), with its defining axiom.
type specDef struct {
	name  string
	keys  []string
	types []*Type
}

func (e *Exec) specFnCall(gf *GhostFunc, args []Term, c *Ctx) Term {
	d := e.specDefs[gf.Name]
	if d == nil {
		d = &specDef{name: "sf!" + gf.Name}
		e.specDefs[gf.Name] = d
		tst := &State{pc: "true", vars: map[string]Term{}, tmpl: &tmplInfo{}}
		gfr := c.fr
		if gpk := e.prog.pkgs[gf.PkgPath]; gpk != nil {
			gfr = &Frame{pkg: gpk, info: gpk.TypesInfo, names: map[string]string{}, ntypes: map[string]*Type{}, closures: map[string]*ast.FuncLit{}}
		}
		c2 := &Ctx{st: tst, old: tst, fr: gfr, spec: true, bound: map[string]Term{}}
		var binders, formals []string
		for i, p := range gf.Params {
			bv := Term{fmt.Sprintf("%s!q%d", p, e.nextQ()), gf.PT[i]}
			c2.bound[p] = bv
			binders = append(binders, fmt.Sprintf("(%s %s)", bv.S, e.Sort(bv.T)))
			formals = append(formals, bv.S)
		}
		body := e.coerce(e.eval(gf.Body, c2), gf.Ret, tst)
		d.keys, d.types = tst.tmpl.keys, tst.tmpl.types
		var sorts []string
		for _, t := range gf.PT {
			sorts = append(sorts, e.Sort(t))
		}
		for i, k := range d.keys {
			binders = append(binders, fmt.Sprintf("(%s %s)", tst.vars[k].S, e.Sort(d.types[i])))
			formals = append(formals, tst.vars[k].S)
			sorts = append(sorts, e.Sort(d.types[i]))
		}
		e.vc.Decl("fun:"+d.name, fmt.Sprintf("(declare-fun %s (%s) %s)", d.name, strings.Join(sorts, " "), e.Sort(gf.Ret)))
		app := d.name
		opaque := false
		if e.topCon != nil {
			for _, o := range e.topCon.Opaque {
				if o == gf.Name {
					opaque = true
				}
			}
		}
		if opaque {
			e.note("spec function %s is opaque here: its definition is not among the premises", gf.Name)
		} else if len(formals) > 0 {
			app = fmt.Sprintf("(%s %s)", d.name, strings.Join(formals, " "))
			e.vc.AddSpecAxiom(fmt.Sprintf("(forall (%s) (! (= %s %s) :pattern (%s)))", strings.Join(binders, " "), app, body.S, app), d.name, "definition of spec function "+gf.Name)
		} else {
			e.vc.AddSpecAxiom(fmt.Sprintf("(= %s %s)", app, body.S), d.name, "definition of spec function "+gf.Name)
		}
	}
	var as []string
	for i, a := range args {
		if i < len(gf.PT) {
			a = e.coerce(a, gf.PT[i], c.st)
		}
		as = append(as, a.S)
	}
	for i, k := range d.keys {
		as = append(as, e.get(c.st, k, d.types[i]).S)
	}
	if len(as) == 0 {
		return Term{d.name, gf.Ret}
	}
	return Term{fmt.Sprintf("(%s %s)", d.name, strings.Join(as, " ")), gf.Ret}
}

// decreases[group/level]: the recursion group and the level of a function in it
func decrGroup(label string) string {
	if i := strings.Index(label, "/"); i > 0 {
		return label[:i]
	}
	return ""
}

func decrLevel(label string) int {
	if i := strings.Index(label, "/"); i > 0 {
		n, _ := strconv.Atoi(label[i+1:])
		return n
	}
	return 0
}
