package main

import (
	"fmt"
	"go/ast"
	"go/token"
	"go/types"
	"strings"
)

func (e *Exec) timeMethod(name string, recv Term, args []Term, c *Ctx) (Term, bool) {
	tTime := recv.T
	switch name {
	case "Sub":
		return Term{fmt.Sprintf("(- %s %s)", recv.S, args[0].S), tInt64}, true
	case "Add":
		return Term{fmt.Sprintf("(+ %s %s)", recv.S, args[0].S), tTime}, true
	case "After":
		return Term{fmt.Sprintf("(> %s %s)", recv.S, args[0].S), tBool}, true
	case "Before":
		return Term{fmt.Sprintf("(< %s %s)", recv.S, args[0].S), tBool}, true
	case "Equal":
		return Term{fmt.Sprintf("(= %s %s)", recv.S, args[0].S), tBool}, true
	case "Compare":
		return Term{fmt.Sprintf("(ite (< %s %s) (- 1) (ite (> %s %s) 1 0))", recv.S, args[0].S, recv.S, args[0].S), tInt}, true
	case "Unix":
		return Term{fmt.Sprintf("(div %s 1000000000)", recv.S), tInt64}, true
	case "UnixNano":
		return Term{recv.S, tInt64}, true
	case "UnixMilli":
		return Term{fmt.Sprintf("(div %s 1000000)", recv.S), tInt64}, true
	case "UTC", "Local", "In":
		return recv, true
	case "IsZero":
		return Term{fmt.Sprintf("(= %s %s)", recv.S, e.Zero(tTime).S), tBool}, true
	case "Day", "Month", "Year", "Hour", "Minute", "Second", "Weekday", "YearDay", "Nanosecond":
		return e.uninterp("time."+name, []Term{recv}, tInt), true
	case "Truncate", "Round":
		return e.uninterp("time."+name, append([]Term{recv}, args...), tTime), true
	case "Format", "String":
		return e.uninterp("time."+name, append([]Term{recv}, args...), tStr), true
	}
	return Term{}, false
}

func (e *Exec) ceil(v Term) Term {
	n := v.S
	if hasBound(n) {
		e.vc.Decl("ax:ceil", "(assert (forall ((x!b Real)) (! (and (>= (ceil! x!b) x!b) (< (ceil! x!b) (+ x!b 1.0)) (is_int (ceil! x!b))) :pattern ((ceil! x!b)))))")
		return Term{fmt.Sprintf("(ceil! %s)", n), tReal}
	}
	if !isAtom(n) {
		n = e.vc.Define("ceilarg", "Real", v.S)
	}
	e.vc.Fact(fmt.Sprintf("(and (>= (ceil! %s) %s) (< (ceil! %s) (+ %s 1.0)) (is_int (ceil! %s)))", n, n, n, n, n))
	return Term{fmt.Sprintf("(ceil! %s)", n), tReal}
}

// sprintf: a deterministic (uninterpreted) function of the format and the arguments, all boxed.
func (e *Exec) sprintf(args []Term, st *State) Term {
	var as []Term
	for _, a := range args {
		if a.T.K == KSlice && a.T.Elem.K == KAny {
			// variadic pack: spread is not available symbolically; keep the sequence
			as = append(as, a)
			continue
		}
		as = append(as, a)
	}
	return e.uninterp("sprintf", as, tStr)
}

func (e *Exec) intrinsic(name string, fn *types.Func, recvExpr ast.Expr, call *ast.CallExpr, c *Ctx, want int) ([]Term, bool) {
	switch name {
	case "golang.org/x/exp/slices.Contains", "slices.Contains":
		a := e.evalArgs(call.Args, c)
		if a[0].T.K == KSlice {
			x := e.coerce(a[1], a[0].T.Elem, c.st)
			bv := fmt.Sprintf("j!q%d", e.nextQ())
			sn := a[0].S
			if !isAtom(sn) {
				sn = e.vc.Define("seq", e.Sort(a[0].T), a[0].S)
			}
			ss := e.Sort(a[0].T)
			return []Term{{fmt.Sprintf("(exists ((%s Int)) (and (<= 0 %s) (< %s (len!%s %s)) (= (select (arr!%s %s) %s) %s)))", bv, bv, bv, ss, sn, ss, sn, bv, x.S), tBool}}, true
		}
	case "fmt.Sprintf", "fmt.Sprint", "fmt.Sprintln":
		if name == "fmt.Sprintf" && len(call.Args) > 0 && !c.spec {
			// Sprintf is modelled as a function of its format and arguments; that reading needs the format to be a
			// compile-time constant (a computed format would have its '%' directives interpreted)
			if tv, ok := c.fr.info.Types[call.Args[0]]; ok && tv.Value == nil {
				e.safetyAssert(c, "format-constant", "false", exprText(call.Args[0]), call)
			}
		}
		args := e.evalArgs(call.Args, c)
		return []Term{e.sprintf(args, c.st)}, true
	case "fmt.Errorf", "errors.New", "errors.Join":
		e.evalArgs(call.Args, c)
		id := e.vc.FreshConst("err", "Int")
		return []Term{{fmt.Sprintf("(A_box %d %s)", e.vc.Tag("*errors.errorString"), id), tAny}}, true
	case "fmt.Println", "fmt.Printf", "fmt.Print", "fmt.Fprintf", "fmt.Fprintln":
		e.evalArgs(call.Args, c)
		return e.freshResults(call, c, "print"), true
	case "time.Now":
		n := e.advanceTime(c.st, "0")
		return []Term{{n.S, e.timeType(call, c)}}, true
	case "time.Since":
		a := e.eval(call.Args[0], c)
		n := e.advanceTime(c.st, "0")
		return []Term{{fmt.Sprintf("(- %s %s)", n.S, a.S), tInt64}}, true
	case "time.Until":
		a := e.eval(call.Args[0], c)
		n := e.advanceTime(c.st, "0")
		return []Term{{fmt.Sprintf("(- %s %s)", a.S, n.S), tInt64}}, true
	case "time.Unix":
		a := e.evalArgs(call.Args, c)
		return []Term{{fmt.Sprintf("(+ (* %s 1000000000) %s)", a[0].S, a[1].S), e.timeType(call, c)}}, true
	case "time.UnixMilli":
		a := e.evalArgs(call.Args, c)
		return []Term{{fmt.Sprintf("(* %s 1000000)", a[0].S), e.timeType(call, c)}}, true
	case "time.Sleep":
		a := e.evalArgs(call.Args, c)
		e.advanceTime(c.st, a[0].S)
		return nil, true
	case "time.After":
		a := e.evalArgs(call.Args, c)
		e.advanceTime(c.st, a[0].S)
		return e.freshResults(call, c, "chan"), true
	case "(time.Duration).Seconds":
		r := e.eval(recvExpr, c)
		return []Term{{fmt.Sprintf("(/ (to_real %s) 1000000000.0)", r.S), tReal}}, true
	case "(time.Duration).Milliseconds":
		r := e.eval(recvExpr, c)
		return []Term{{fmt.Sprintf("(godiv %s 1000000)", r.S), tInt64}}, true
	case "(time.Duration).Nanoseconds":
		r := e.eval(recvExpr, c)
		return []Term{{r.S, tInt64}}, true
	case "(time.Duration).String":
		r := e.eval(recvExpr, c)
		return []Term{e.uninterp("dur.String", []Term{r}, tStr)}, true
	case "math.Ceil":
		a := e.evalArgs(call.Args, c)
		return []Term{e.ceil(e.toReal(a[0]))}, true
	case "math.Max":
		a := e.evalArgs(call.Args, c)
		return []Term{{fmt.Sprintf("(ite (>= %s %s) %s %s)", a[0].S, a[1].S, a[0].S, a[1].S), tReal}}, true
	case "math.Min":
		a := e.evalArgs(call.Args, c)
		return []Term{{fmt.Sprintf("(ite (<= %s %s) %s %s)", a[0].S, a[1].S, a[0].S, a[1].S), tReal}}, true
	case "(*sync.Mutex).Lock", "(*sync.RWMutex).Lock", "(*sync.RWMutex).RLock":
		e.lock(recvExpr, c, call)
		return nil, true
	case "(*sync.Mutex).Unlock", "(*sync.RWMutex).Unlock", "(*sync.RWMutex).RUnlock":
		e.unlock(recvExpr, c, call)
		return nil, true
	case "(*sync.WaitGroup).Add", "(*sync.WaitGroup).Done", "(*sync.WaitGroup).Wait",
		"(*sync/atomic.Int64).Add", "(*sync/atomic.Int64).Load", "(*sync/atomic.Int64).Store",
		"(*sync/atomic.Int32).Add", "(*sync/atomic.Int32).Load", "(*sync/atomic.Int32).Store":
		owner, fld := e.syncMapOwner(recvExpr, c)
		a := e.evalArgs(call.Args, c)
		key := "OP!" + fld
		at := &Type{K: KGMap, Key: tInt, Elem: tInt}
		arr := e.get(c.st, key, at)
		cur := fmt.Sprintf("(select %s %s)", arr.S, owner.S)
		switch fn.Name() {
		case "Add":
			nv := fmt.Sprintf("(+ %s %s)", cur, a[0].S)
			if strings.Contains(name, "WaitGroup") {
				e.safetyAssert(c, "waitgroup-negative", fmt.Sprintf("(>= %s 0)", nv), exprText(call), call)
			}
			e.set(c.st, key, Term{fmt.Sprintf("(store %s %s %s)", arr.S, owner.S, nv), at})
			if strings.Contains(name, "atomic") {
				return []Term{{nv, tInt64}}, true
			}
			return nil, true
		case "Done":
			// a negative counter panics
			e.safetyAssert(c, "waitgroup-negative", fmt.Sprintf("(>= %s 1)", cur), exprText(call), call)
			e.set(c.st, key, Term{fmt.Sprintf("(store %s %s (- %s 1))", arr.S, owner.S, cur), at})
			return nil, true
		case "Wait":
			// blocks until the counter is zero: other threads run, time passes
			e.advanceTime(c.st, "0")
			e.interfereAll(c.st, c.fr)
			arr2 := e.get(c.st, key, at)
			e.assume(c.st, fmt.Sprintf("(= (select %s %s) 0)", arr2.S, owner.S))
			return nil, true
		case "Load":
			return []Term{{cur, tInt64}}, true
		case "Store":
			e.set(c.st, key, Term{fmt.Sprintf("(store %s %s %s)", arr.S, owner.S, a[0].S), at})
			return nil, true
		}
	case "(*sync/atomic.Value).Store", "(*sync/atomic.Value).Load":
		owner, fld := e.syncMapOwner(recvExpr, c)
		a := e.evalArgs(call.Args, c)
		key := "OV!" + fld
		at := &Type{K: KGMap, Key: tInt, Elem: tAny}
		arr := e.get(c.st, key, at)
		if fn.Name() == "Store" {
			e.set(c.st, key, Term{fmt.Sprintf("(store %s %s %s)", arr.S, owner.S, e.toAny(a[0], c.st).S), at})
			return nil, true
		}
		return []Term{{fmt.Sprintf("(select %s %s)", arr.S, owner.S), tAny}}, true
	case "(*sync.Map).Store":
		owner, fld := e.syncMapOwner(recvExpr, c)
		a := e.evalArgs(call.Args, c)
		e.syncMapStore(c.st, owner, fld, e.toAny(a[0], c.st), e.toAny(a[1], c.st), true)
		return nil, true
	case "(*sync.Map).Delete":
		owner, fld := e.syncMapOwner(recvExpr, c)
		a := e.evalArgs(call.Args, c)
		e.syncMapStore(c.st, owner, fld, e.toAny(a[0], c.st), Term{"A_nil", tAny}, false)
		return nil, true
	case "(*sync.Map).Load", "(*sync.Map).LoadAndDelete":
		owner, fld := e.syncMapOwner(recvExpr, c)
		a := e.evalArgs(call.Args, c)
		k := e.toAny(a[0], c.st)
		d, v := e.syncMapArrs(c.st, owner, fld)
		in := e.vc.Define("smin", "Bool", fmt.Sprintf("(select (select %s %s) %s)", d.S, owner.S, k.S))
		val := fmt.Sprintf("(ite %s (select (select %s %s) %s) A_nil)", in, v.S, owner.S, k.S)
		res := []Term{{e.vc.Define("smval", "Any", val), tAny}, {in, tBool}}
		if strings.HasSuffix(name, "LoadAndDelete") {
			e.syncMapStore(c.st, owner, fld, k, Term{"A_nil", tAny}, false)
		}
		return res, true
	}
	if fn.Pkg() != nil && fn.Pkg().Path() == "time" {
		sig := fn.Type().(*types.Signature)
		if sig.Recv() != nil && isTimeType(sig.Recv().Type()) {
			r := e.eval(recvExpr, c)
			a := e.evalArgs(call.Args, c)
			if t, ok := e.timeMethod(fn.Name(), r, a, c); ok {
				return []Term{t}, true
			}
		}
	}
	// the injected clock
	if fn.Pkg() != nil && (strings.HasSuffix(fn.Pkg().Path(), "toolkit-core/clock") || isClockIface(fn)) {
		sig := fn.Type().(*types.Signature)
		if sig.Recv() != nil {
			if recvExpr != nil {
				e.eval(recvExpr, c)
			}
			a := e.evalArgs(call.Args, c)
			switch fn.Name() {
			case "Now":
				n := e.advanceTime(c.st, "0")
				return []Term{{n.S, e.timeType(call, c)}}, true
			case "Since":
				n := e.advanceTime(c.st, "0")
				return []Term{{fmt.Sprintf("(- %s %s)", n.S, a[0].S), tInt64}}, true
			case "Until":
				n := e.advanceTime(c.st, "0")
				return []Term{{fmt.Sprintf("(- %s %s)", a[0].S, n.S), tInt64}}, true
			case "Sleep":
				e.sleepRequires(a[0], c, call)
				e.advanceTime(c.st, a[0].S)
				return nil, true
			case "After":
				e.sleepRequires(a[0], c, call)
				e.advanceTime(c.st, a[0].S)
				return e.freshResults(call, c, "chan"), true
			}
		}
	}
	if e.vc.smtStr && fn.Pkg() != nil && fn.Pkg().Path() == "strings" {
		a := e.evalArgs(call.Args, c)
		switch fn.Name() {
		case "HasSuffix":
			return []Term{{fmt.Sprintf("(str.suffixof %s %s)", a[1].S, a[0].S), tBool}}, true
		case "HasPrefix":
			return []Term{{fmt.Sprintf("(str.prefixof %s %s)", a[1].S, a[0].S), tBool}}, true
		case "Contains":
			return []Term{{fmt.Sprintf("(str.contains %s %s)", a[0].S, a[1].S), tBool}}, true
		case "TrimPrefix":
			return []Term{{fmt.Sprintf("(ite (str.prefixof %s %s) (str.substr %s (str.len %s) (- (str.len %s) (str.len %s))) %s)", a[1].S, a[0].S, a[0].S, a[1].S, a[0].S, a[1].S, a[0].S), tStr}}, true
		case "TrimSuffix":
			return []Term{{fmt.Sprintf("(ite (str.suffixof %s %s) (str.substr %s 0 (- (str.len %s) (str.len %s))) %s)", a[1].S, a[0].S, a[0].S, a[0].S, a[1].S, a[0].S), tStr}}, true
		case "ReplaceAll":
			return []Term{{fmt.Sprintf("(str.replace_all %s %s %s)", a[0].S, a[1].S, a[2].S), tStr}}, true
		case "Index":
			return []Term{{fmt.Sprintf("(str.indexof %s %s 0)", a[0].S, a[1].S), tInt}}, true
		}
		var rts []Term
		for i, rt := range e.resultTypes(call, c) {
			rts = append(rts, e.uninterp(fmt.Sprintf("fn!strings.%s!%d", fn.Name(), i), a, rt))
		}
		return rts, true
	}
	return nil, false
}

func (e *Exec) timeType(call *ast.CallExpr, c *Ctx) *Type {
	if tv, ok := c.fr.info.Types[call]; ok {
		return e.prog.TypeOf(tv.Type, c.fr.subst)
	}
	return tInt
}

// ---------------------------------------------------------------- sync.Map fields

// interfereAll: a blocking operation lets other threads run: monitor-protected state of objects whose lock this thread
// does not hold is arbitrary afterwards (in concurrent mode); the counters of wait groups likewise.
func (e *Exec) interfereAll(st *State, fr *Frame) {
	for k, v := range st.vars {
		if strings.HasPrefix(k, "OP!") {
			e.havocKey(st, k, v.T)
		}
	}
	if e.mode != "conc" {
		return
	}
	for _, m := range e.prog.monitors {
		for _, pf := range m.Protects {
			if strings.HasPrefix(pf, "smap(") {
				continue
			}
			k := heapKey(m.Struct, pf)
			for sk, v := range st.vars {
				if baseName(strings.TrimPrefix(sk, "H!")) == strings.TrimPrefix(k, "H!") || sk == k {
					e.havocKey(st, sk, v.T)
				}
			}
		}
	}
}

func (e *Exec) syncMapOwner(x ast.Expr, c *Ctx) (Term, string) {
	x = unparen(x)
	if u, ok := x.(*ast.UnaryExpr); ok {
		x = unparen(u.X)
	}
	se, ok := x.(*ast.SelectorExpr)
	if !ok {
		e.errorf("%s: sync.Map that is not a struct field: %s", e.curPos, exprText(x))
		return Term{"0", tInt}, "?"
	}
	owner := e.eval(se.X, c)
	return owner, owner.T.Name + "!" + se.Sel.Name
}

func (e *Exec) syncMapArrs(st *State, owner Term, fld string) (Term, Term) {
	dt := &Type{K: KGMap, Key: tInt, Elem: &Type{K: KGMap, Key: tAny, Elem: tBool}}
	vt := &Type{K: KGMap, Key: tInt, Elem: &Type{K: KGMap, Key: tAny, Elem: tAny}}
	return e.get(st, "SM!"+fld+"!dom", dt), e.get(st, "SM!"+fld+"!val", vt)
}

func (e *Exec) syncMapStore(st *State, owner Term, fld string, k, v Term, present bool) {
	d, va := e.syncMapArrs(st, owner, fld)
	p := "false"
	if present {
		p = "true"
	}
	e.set(st, "SM!"+fld+"!dom", Term{fmt.Sprintf("(store %s %s (store (select %s %s) %s %s))", d.S, owner.S, d.S, owner.S, k.S, p), d.T})
	if present {
		e.set(st, "SM!"+fld+"!val", Term{fmt.Sprintf("(store %s %s (store (select %s %s) %s %s))", va.S, owner.S, va.S, owner.S, k.S, v.S), va.T})
	}
}

// ---------------------------------------------------------------- monitors

func (e *Exec) heldArr(st *State, structName, mutex string) Term {
	at := &Type{K: KGMap, Key: tInt, Elem: tBool}
	return e.get(st, "$held!"+structName+"."+mutex, at)
}

func (e *Exec) mutexOwner(x ast.Expr, c *Ctx) (Term, string, bool) {
	x = unparen(x)
	se, ok := x.(*ast.SelectorExpr)
	if !ok {
		return Term{}, "", false
	}
	owner := e.eval(se.X, c)
	if owner.T.K != KRef || owner.T.Name == "" {
		return Term{}, "", false
	}
	return owner, se.Sel.Name, true
}

func (e *Exec) monitorInv(m *Monitor, owner Term, st *State, fr *Frame, assert bool, pos string) {
	pk := e.prog.pkgs[m.PkgPath]
	cfr := &Frame{pkg: pk, names: map[string]string{}, ntypes: map[string]*Type{}, closures: map[string]*ast.FuncLit{}}
	if pk != nil {
		cfr.info = pk.TypesInfo
	}
	for _, inv := range m.Inv {
		sc := &Ctx{st: st, fr: cfr, spec: true, bound: map[string]Term{m.Self: owner}}
		phi := e.evalCond(inv.Expr, sc)
		if assert {
			name := fmt.Sprintf("%s#monitor[%s.%s:%s]", e.fnName, shortStructName(m.Struct), m.Mutex, inv.Label)
			e.assert(st, name, "monitor-invariant", phi, inv.Text, pos, e.modelVars(st, fr))
		} else {
			e.assume(st, phi)
		}
	}
}

func (e *Exec) lock(recvExpr ast.Expr, c *Ctx, call *ast.CallExpr) {
	owner, mu, ok := e.mutexOwner(recvExpr, c)
	if !ok {
		e.eval(recvExpr, c)
		return
	}
	st := c.st
	h := e.heldArr(st, owner.T.Name, mu)
	e.set(st, "$held!"+owner.T.Name+"."+mu, Term{fmt.Sprintf("(store %s %s true)", h.S, owner.S), h.T})
	if fnm := exprText(call.Fun); !strings.HasSuffix(fnm, ".RLock") {
		hw := e.heldArr(st, owner.T.Name, mu+"!w")
		e.set(st, "$held!"+owner.T.Name+"."+mu+"!w", Term{fmt.Sprintf("(store %s %s true)", hw.S, owner.S), hw.T})
	}
	m := e.prog.monitors[baseName(owner.T.Name)+"."+mu]
	if m == nil {
		return
	}
	e.usedMonitor = true
	if e.mode == "conc" {
		// any other thread may have run: protected state is arbitrary but satisfies the invariant
		ot := &Type{K: KRef, Name: owner.T.Name, St: owner.T.St, Subst: owner.T.Subst}
		for _, pf := range m.Protects {
			if strings.HasPrefix(pf, "smap(") {
				// contents of a sync.Map reachable from the owner: arbitrary after the acquire
				ex, err := parseSpec(strings.TrimSuffix(strings.TrimPrefix(pf, "smap("), ")"))
				if err != nil {
					e.errorf("monitor %s: %v", m.Struct, err)
					continue
				}
				pk := e.prog.pkgs[m.PkgPath]
				cfr := &Frame{pkg: pk, info: pk.TypesInfo, names: map[string]string{}, ntypes: map[string]*Type{}, closures: map[string]*ast.FuncLit{}}
				sc := &Ctx{st: st, fr: cfr, spec: true, bound: map[string]Term{m.Self: owner}}
				so, fld := e.syncMapOwner(ex, sc)
				d, va := e.syncMapArrs(st, so, fld)
				nd := e.vc.FreshConst("intf_smdom", "(Array Any Bool)")
				nv := e.vc.FreshConst("intf_smval", "(Array Any Any)")
				e.set(st, "SM!"+fld+"!dom", Term{fmt.Sprintf("(store %s %s %s)", d.S, so.S, nd), d.T})
				e.set(st, "SM!"+fld+"!val", Term{fmt.Sprintf("(store %s %s %s)", va.S, so.S, nv), va.T})
				continue
			}
			path := e.findField(ot, pf, 0)
			if path == nil {
				e.errorf("monitor %s.%s protects unknown field %s", m.Struct, m.Mutex, pf)
				continue
			}
			f := path[0]
			if f.Type.K == KOpaque {
				opk := "OP!" + owner.T.Name + "!" + f.Name
				at := &Type{K: KGMap, Key: tInt, Elem: tInt}
				oa := e.get(st, opk, at)
				e.set(st, opk, Term{fmt.Sprintf("(store %s %s %s)", oa.S, owner.S, e.vc.FreshConst("intf_op", "Int")), at})
			}
			ha := e.heapArr(st, owner.T.Name, f)
			nv := e.vc.FreshConst("intf_"+f.Name, e.Sort(f.Type))
			e.set(st, heapKey(owner.T.Name, f.Name), Term{fmt.Sprintf("(store %s %s %s)", ha.S, owner.S, nv), ha.T})
			if f.Type.K == KSlice {
				e.assume(st, fmt.Sprintf("(>= (len!%s %s) 0)", e.Sort(f.Type), nv))
			}
		}
		// time passes while waiting for the lock
		e.advanceTime(st, "0")
	}
	mkey := owner.T.Name + "." + mu + "@" + owner.S
	if e.mode == "conc" {
		if rel, ok := st.rel[mkey]; ok {
			e.monitorRely(m, owner, st, rel, c.fr, false, "")
		}
		// the contents of a protected map are protected state too: arbitrary after the acquire
		ot := &Type{K: KRef, Name: owner.T.Name, St: owner.T.St, Subst: owner.T.Subst}
		for _, pf := range m.Protects {
			if strings.HasPrefix(pf, "smap(") {
				continue
			}
			path := e.findField(ot, pf, 0)
			if path == nil || path[0].Type.K != KMap {
				continue
			}
			f := path[0]
			mref := fmt.Sprintf("(select %s %s)", e.heapArr(st, owner.T.Name, f).S, owner.S)
			da := e.mapDomArr(st, f.Type)
			va := e.mapValArr(st, f.Type)
			nd := e.vc.FreshConst("intf_dom", fmt.Sprintf("(Array %s Bool)", e.Sort(f.Type.Key)))
			nv := e.vc.FreshConst("intf_val", fmt.Sprintf("(Array %s %s)", e.Sort(f.Type.Key), e.Sort(f.Type.Elem)))
			e.set(st, "MD!"+mapKeyName(e, f.Type), Term{fmt.Sprintf("(store %s %s %s)", da.S, mref, nd), da.T})
			e.set(st, "MV!"+mapKeyName(e, f.Type), Term{fmt.Sprintf("(store %s %s %s)", va.S, mref, nv), va.T})
		}
	}
	e.monitorInv(m, owner, st, c.fr, false, "")
	snap := st.clone()
	st.lockSnap = snap
	if st.acq == nil {
		st.acq = map[string]*State{}
	}
	st.acq[mkey] = snap
}

// monitorRely: the two-state guarantee of every critical section (asserted at release against the state at
// the acquire; assumed at a later acquire against the state at this thread's previous release).
func (e *Exec) monitorRely(m *Monitor, owner Term, st *State, old *State, fr *Frame, assert bool, pos string) {
	pk := e.prog.pkgs[m.PkgPath]
	cfr := &Frame{pkg: pk, names: map[string]string{}, ntypes: map[string]*Type{}, closures: map[string]*ast.FuncLit{}}
	if pk != nil {
		cfr.info = pk.TypesInfo
	}
	for _, rl := range m.Rely {
		sc := &Ctx{st: st, fr: cfr, spec: true, bound: map[string]Term{m.Self: owner}, old: old}
		phi := e.evalCond(rl.Expr, sc)
		if assert {
			name := fmt.Sprintf("%s#guarantee[%s.%s:%s]", e.fnName, shortStructName(m.Struct), m.Mutex, rl.Label)
			e.assert(st, name, "monitor-guarantee", phi, rl.Text, pos, e.modelVars(st, fr))
		} else {
			e.assume(st, phi)
		}
	}
}

func (e *Exec) unlock(recvExpr ast.Expr, c *Ctx, call *ast.CallExpr) {
	owner, mu, ok := e.mutexOwner(recvExpr, c)
	if !ok {
		e.eval(recvExpr, c)
		return
	}
	st := c.st
	h := e.heldArr(st, owner.T.Name, mu)
	m := e.prog.monitors[baseName(owner.T.Name)+"."+mu]
	if m != nil {
		e.safetyAssert(c, "unlock-held", fmt.Sprintf("(select %s %s)", h.S, owner.S), exprText(recvExpr), call)
		e.monitorInv(m, owner, st, c.fr, true, e.prog.pos(call))
		mkey := owner.T.Name + "." + mu + "@" + owner.S
		if acq, ok := st.acq[mkey]; ok && len(m.Rely) > 0 {
			e.monitorRely(m, owner, st, acq, c.fr, true, e.prog.pos(call))
		}
		if st.rel == nil {
			st.rel = map[string]*State{}
		}
		st.rel[mkey] = st.clone()
	}
	e.set(st, "$held!"+owner.T.Name+"."+mu, Term{fmt.Sprintf("(store %s %s false)", h.S, owner.S), h.T})
	hw := e.heldArr(st, owner.T.Name, mu+"!w")
	e.set(st, "$held!"+owner.T.Name+"."+mu+"!w", Term{fmt.Sprintf("(store %s %s false)", hw.S, owner.S), hw.T})
}

// guardWrite: a write to a protected field (or into the map/slice stored in it) needs the write lock.
func (e *Exec) guardWrite(c *Ctx, base Term, field string, n ast.Node) {
	if e.mode != "conc" || c.spec {
		return
	}
	for _, m := range e.prog.monitors {
		if m.Struct != baseName(base.T.Name) {
			continue
		}
		for _, pf := range m.Protects {
			if pf == field {
				h := e.heldArr(c.st, base.T.Name, m.Mutex+"!w")
				name := fmt.Sprintf("%s#guarded-by[%s.%s:%s:write]", e.fnName, shortStructName(m.Struct), m.Mutex, field)
				e.assert(c.st, name, "guarded-by", fmt.Sprintf("(select %s %s)", h.S, base.S), "write to "+field+" needs the write lock "+m.Mutex, e.prog.pos(n), nil)
			}
		}
	}
}

// guardWriteThrough: x.f[k] = v / delete(x.f, k) where f is a protected field.
func (e *Exec) guardWriteThrough(x ast.Expr, c *Ctx) {
	if e.mode != "conc" || c.spec {
		return
	}
	se, ok := unparen(x).(*ast.SelectorExpr)
	if !ok {
		return
	}
	if tv, ok := c.fr.info.Types[se.X]; ok {
		bt := e.prog.TypeOf(tv.Type, c.fr.subst)
		if bt.K == KRef && bt.Name != "" {
			if _, isMon := e.protectedField(bt.Name, se.Sel.Name); isMon {
				base := e.eval(se.X, c)
				e.guardWrite(c, base, se.Sel.Name, x)
			}
		}
	}
}

func (e *Exec) protectedField(structName, field string) (*Monitor, bool) {
	for _, m := range e.prog.monitors {
		if m.Struct != baseName(structName) {
			continue
		}
		for _, pf := range m.Protects {
			if pf == field {
				return m, true
			}
		}
	}
	return nil, false
}

// guardedBy: an access to a protected field requires the monitor's lock.
func (e *Exec) guardedBy(c *Ctx, base Term, field string, n ast.Node) {
	if e.mode != "conc" {
		return
	}
	for _, m := range e.prog.monitors {
		if m.Struct != baseName(base.T.Name) {
			continue
		}
		for _, pf := range m.Protects {
			if pf == field {
				h := e.heldArr(c.st, base.T.Name, m.Mutex)
				name := fmt.Sprintf("%s#guarded-by[%s.%s:%s]", e.fnName, shortStructName(m.Struct), m.Mutex, field)
				e.assert(c.st, name, "guarded-by", fmt.Sprintf("(select %s %s)", h.S, base.S), "access to "+field+" needs "+m.Mutex, e.prog.pos(n), nil)
			}
		}
	}
}

// sleepRequires: the `sleep requires` clauses of the function under contract, checked at a wait of duration d.
func (e *Exec) sleepRequires(d Term, c *Ctx, call *ast.CallExpr) {
	if c.spec || e.inSpawn {
		return
	}
	tf := topFrameOf(c.fr)
	if tf == nil || tf.contract == nil {
		return
	}
	for _, rq := range tf.contract.SleepReq {
		if rq.Mode != "" && rq.Mode != e.mode {
			continue
		}
		sc := &Ctx{st: c.st, fr: tf, spec: true, old: tf.entry, bound: map[string]Term{"d": d}}
		phi := e.evalCond(rq.Expr, sc)
		e.assert(c.st, fmt.Sprintf("%s#sleep.requires[%s]", e.fnName, rq.Label), "assertion", phi, rq.Text, e.prog.pos(call), e.modelVars(c.st, tf))
	}
}

// ---------------------------------------------------------------- effects of a loop body (what to havoc at the loop head)

type Effects struct {
	locals map[string]*Type
	heap   map[string]*Type // heap key -> type of the heap array
	all    bool
	time   bool
	// maps written directly in the loop body through a stable expression: only their rows are havocked
	mapExprs []ast.Expr
	mapTypes []*Type
}

func (e *Exec) effectsOf(fr *Frame, nodes ...ast.Node) *Effects {
	ef := &Effects{locals: map[string]*Type{}, heap: map[string]*Type{}}
	for _, n := range nodes {
		if n == nil {
			continue
		}
		// typed nil check
		switch v := n.(type) {
		case ast.Expr:
			if v == nil {
				continue
			}
		case ast.Stmt:
			if v == nil {
				continue
			}
		case *ast.BlockStmt:
			if v == nil {
				continue
			}
		}
		if blk, ok := n.(*ast.BlockStmt); ok {
			e.exitOnly = map[*ast.BlockStmt]bool{}
			markExitOnly(blk.List, false, e.exitOnly)
		}
		e.collectEffects(n, fr.info, fr.subst, ef, 0, map[string]bool{})
		e.exitOnly = nil
	}
	return ef
}

// markExitOnly marks the blocks of a loop body that every path leaves the loop through (their statement list ends in a
// `return` or in a `break` of this loop and contains no other branch statement): what such a block assigns never
// reaches the loop head, so it is not part of what is arbitrary there (the exit states are computed by executing the
// body, which includes these blocks).
func markExitOnly(list []ast.Stmt, inInner bool, out map[*ast.BlockStmt]bool) {
	for _, s := range list {
		switch v := s.(type) {
		case *ast.BlockStmt:
			markBlock(v, inInner, out)
		case *ast.IfStmt:
			for cur := v; cur != nil; {
				markBlock(cur.Body, inInner, out)
				switch el := cur.Else.(type) {
				case *ast.IfStmt:
					cur = el
				case *ast.BlockStmt:
					markBlock(el, inInner, out)
					cur = nil
				default:
					cur = nil
				}
			}
		case *ast.ForStmt:
			markExitOnly(v.Body.List, true, out)
		case *ast.RangeStmt:
			markExitOnly(v.Body.List, true, out)
		case *ast.LabeledStmt:
			markExitOnly([]ast.Stmt{v.Stmt}, true, out) // labels: stay conservative below this point
		}
	}
}

func markBlock(b *ast.BlockStmt, inInner bool, out map[*ast.BlockStmt]bool) {
	if b == nil {
		return
	}
	markExitOnly(b.List, inInner, out)
	if len(b.List) == 0 {
		return
	}
	last := b.List[len(b.List)-1]
	exits := false
	switch l := last.(type) {
	case *ast.ReturnStmt:
		exits = true
	case *ast.BranchStmt:
		exits = l.Tok == token.BREAK && l.Label == nil && !inInner
	}
	if !exits {
		return
	}
	clean := true
	for i, s := range b.List {
		ast.Inspect(s, func(x ast.Node) bool {
			switch br := x.(type) {
			case *ast.FuncLit:
				return false
			case *ast.BranchStmt:
				if !(i == len(b.List)-1 && ast.Node(br) == ast.Node(last)) {
					clean = false
				}
			case *ast.LabeledStmt, *ast.DeferStmt, *ast.GoStmt:
				clean = false
			}
			return clean
		})
	}
	if clean {
		out[b] = true
	}
}

func (e *Exec) lhsEffect(x ast.Expr, info *types.Info, subst map[*types.TypeParam]types.Type, ef *Effects, local bool) {
	switch l := unparen(x).(type) {
	case *ast.Ident:
		if l.Name == "_" {
			return
		}
		obj := info.Uses[l]
		if obj == nil {
			obj = info.Defs[l]
		}
		if v, ok := obj.(*types.Var); ok {
			k := e.keyOf(v)
			if strings.HasPrefix(k, "G!") {
				ef.heap[k] = e.prog.TypeOf(v.Type(), subst)
			} else if local {
				ef.locals[k] = e.prog.TypeOf(v.Type(), subst)
			}
		}
	case *ast.SelectorExpr:
		tv, ok := info.Types[l.X]
		if !ok {
			ef.all = true
			return
		}
		bt := e.prog.TypeOf(tv.Type, subst)
		if bt.K == KRef && bt.Name != "" {
			path := e.findField(bt, l.Sel.Name, 0)
			cur := bt
			for _, f := range path {
				if cur.K == KRef {
					ef.heap[heapKey(cur.Name, f.Name)] = &Type{K: KGMap, Key: tInt, Elem: f.Type}
					break
				}
				cur = f.Type
			}
			if len(path) > 1 {
				// write through an embedded pointer
				cur = bt
				for _, f := range path {
					if cur.K == KRef && cur.Name != "" {
						ef.heap[heapKey(cur.Name, f.Name)] = &Type{K: KGMap, Key: tInt, Elem: f.Type}
					}
					cur = f.Type
				}
			}
			return
		}
		e.lhsEffect(l.X, info, subst, ef, local)
	case *ast.IndexExpr:
		tv, ok := info.Types[l.X]
		if !ok {
			ef.all = true
			return
		}
		bt := e.prog.TypeOf(tv.Type, subst)
		if bt.K == KMap {
			if local && !hasCall(l.X) {
				ef.mapExprs = append(ef.mapExprs, l.X)
				ef.mapTypes = append(ef.mapTypes, bt)
			} else {
				e.mapEffect(bt, ef)
			}
			return
		}
		e.lhsEffect(l.X, info, subst, ef, local)
	case *ast.StarExpr:
		tv, ok := info.Types[l.X]
		if !ok {
			ef.all = true
			return
		}
		bt := e.prog.TypeOf(tv.Type, subst)
		if bt.K == KRef && bt.Name == "" {
			ef.heap["P!"+mangle(e.Sort(bt.Elem))] = &Type{K: KGMap, Key: tInt, Elem: bt.Elem}
		} else {
			ef.all = true
		}
	}
}

func (e *Exec) collectEffects(n ast.Node, info *types.Info, subst map[*types.TypeParam]types.Type, ef *Effects, depth int, seen map[string]bool) {
	local := depth == 0
	ast.Inspect(n, func(x ast.Node) bool {
		if blk, ok := x.(*ast.BlockStmt); ok && local && e.exitOnly[blk] {
			return false
		}
		switch v := x.(type) {
		case *ast.AssignStmt:
			for _, l := range v.Lhs {
				e.lhsEffect(l, info, subst, ef, local)
			}
		case *ast.IncDecStmt:
			e.lhsEffect(v.X, info, subst, ef, local)
		case *ast.RangeStmt:
			if v.Key != nil {
				e.lhsEffect(v.Key, info, subst, ef, local)
			}
			if v.Value != nil {
				e.lhsEffect(v.Value, info, subst, ef, local)
			}
			if local {
				ef.locals[fmt.Sprintf("$i!%d", int(v.Pos()))] = tInt
			}
		case *ast.DeclStmt:
			if gd, ok := v.Decl.(*ast.GenDecl); ok {
				for _, sp := range gd.Specs {
					if vs, ok := sp.(*ast.ValueSpec); ok {
						for _, nm := range vs.Names {
							e.lhsEffect(nm, info, subst, ef, local)
						}
					}
				}
			}
		case *ast.UnaryExpr:
			if v.Op.String() == "<-" {
				ef.time = true
			}
		case *ast.SendStmt, *ast.SelectStmt:
			ef.time = true
		case *ast.FuncLit:
			return true
		case *ast.CallExpr:
			e.callEffects(v, info, subst, ef, depth, seen)
		}
		return true
	})
}

func (e *Exec) callEffects(call *ast.CallExpr, info *types.Info, subst map[*types.TypeParam]types.Type, ef *Effects, depth int, seen map[string]bool) {
	fun := unparen(call.Fun)
	if tv, ok := info.Types[fun]; ok && tv.IsType() {
		return
	}
	if ix, ok := fun.(*ast.IndexExpr); ok {
		fun = unparen(ix.X)
	}
	var fn *types.Func
	var recvExpr ast.Expr
	switch f := fun.(type) {
	case *ast.Ident:
		switch obj := info.Uses[f].(type) {
		case *types.Builtin:
			if obj.Name() == "delete" && len(call.Args) > 0 {
				if tv, ok := info.Types[call.Args[0]]; ok {
					bt := e.prog.TypeOf(tv.Type, subst)
					if bt.K == KMap {
						e.mapEffect(bt, ef)
					}
				}
			}
			return
		case *types.Func:
			fn = obj
		case *types.Var:
			// closure variable or function value
			ef.all = true
			return
		}
	case *ast.SelectorExpr:
		if sel, ok := info.Selections[f]; ok {
			if sel.Kind() == types.MethodVal {
				fn = sel.Obj().(*types.Func)
				recvExpr = f.X
			} else {
				// function-typed field: look for a field contract
				rt := sel.Recv()
				if p, ok := rt.(*types.Pointer); ok {
					rt = p.Elem()
				}
				owner := e.fieldOwnerName(rt, sel.Index())
				if ct, ok := e.prog.contracts[owner+"."+f.Sel.Name]; ok {
					if sig, ok := sel.Obj().Type().Underlying().(*types.Signature); ok {
						e.contractEffects(ct, nil, sig, ef)
						return
					}
				}
				ef.all = true
				return
			}
		} else if obj, ok := info.Uses[f.Sel].(*types.Func); ok {
			fn = obj
		}
	case *ast.FuncLit:
		e.collectEffects(f.Body, info, subst, ef, depth, seen)
		return
	}
	if fn == nil {
		ef.all = true
		return
	}
	name := fullName(fn)
	if e.isDropped(fn, recvExpr, nil) {
		return
	}
	pp := ""
	if fn.Pkg() != nil {
		pp = fn.Pkg().Path()
	}
	switch {
	case strings.HasSuffix(pp, "toolkit-core/clock") || isClockIface(fn) || name == "time.Now" || name == "time.Since" || name == "time.Sleep" || name == "time.After" || name == "time.Until":
		ef.time = true
		return
	case pp == "time" || pp == "fmt" || pp == "errors" || pp == "math" || pureStd[pp]:
		return
	case strings.HasPrefix(name, "(*sync.Mutex)") || strings.HasPrefix(name, "(*sync.RWMutex)"):
		if se, ok := unparen(recvExpr).(*ast.SelectorExpr); ok {
			if tv, ok := info.Types[se.X]; ok {
				bt := e.prog.TypeOf(tv.Type, subst)
				if bt.K == KRef && bt.Name != "" {
					ef.heap["$held!"+bt.Name+"."+se.Sel.Name] = &Type{K: KGMap, Key: tInt, Elem: tBool}
					if m := e.prog.monitors[baseName(bt.Name)+"."+se.Sel.Name]; m != nil {
						ef.time = true
						for _, pf := range m.Protects {
							if path := e.findField(bt, pf, 0); path != nil {
								ef.heap[heapKey(bt.Name, pf)] = &Type{K: KGMap, Key: tInt, Elem: path[0].Type}
							}
						}
					}
				}
			}
		}
		return
	case strings.HasPrefix(name, "(*sync.Map)"):
		if se, ok := unparen(recvExpr).(*ast.SelectorExpr); ok {
			if tv, ok := info.Types[se.X]; ok {
				bt := e.prog.TypeOf(tv.Type, subst)
				ef.heap["SM!"+bt.Name+"!"+se.Sel.Name+"!dom"] = &Type{K: KGMap, Key: tInt, Elem: &Type{K: KGMap, Key: tAny, Elem: tBool}}
				ef.heap["SM!"+bt.Name+"!"+se.Sel.Name+"!val"] = &Type{K: KGMap, Key: tInt, Elem: &Type{K: KGMap, Key: tAny, Elem: tAny}}
			}
		}
		return
	}
	// static type of the receiver expression: instantiates generic receivers of the callee
	e.effRecvType, e.effSubst = nil, subst
	if recvExpr != nil {
		if tv, ok := info.Types[recvExpr]; ok {
			e.effRecvType = tv.Type
		}
	}
	defer func() { e.effRecvType = nil }()
	if ct := e.prog.contractFor(fn); ct != nil && !(ct.Inline && ct.Kind == "func") {
		e.contractEffects(ct, fn, fn.Type().(*types.Signature), ef)
		return
	}
	if e.prog.isPure(fn) {
		return
	}
	if e.topCon != nil && e.topCon.Dispatch != nil {
		if sg := fn.Type().(*types.Signature); sg.Recv() != nil {
			if in, ok := types.Unalias(sg.Recv().Type()).(*types.Named); ok {
				impls, ok := e.topCon.Dispatch[in.Obj().Name()+"."+fn.Name()]
				if !ok {
					if _, hasIface := e.prog.contracts[e.topCon.PkgName+"."+in.Obj().Name()+"."+fn.Name()]; !hasIface {
						impls, ok = e.topCon.Dispatch[in.Obj().Name()]
					}
				}
				if ok {
					for _, tn := range impls {
						tname := strings.TrimPrefix(strings.TrimSpace(tn), "*")
						for _, fi := range e.prog.funcs {
							if fi.Obj.Name() != fn.Name() {
								continue
							}
							s2 := fi.Obj.Type().(*types.Signature)
							if s2.Recv() == nil {
								continue
							}
							r := s2.Recv().Type()
							if p, ok := r.(*types.Pointer); ok {
								r = p.Elem()
							}
							if nn, ok := types.Unalias(r).(*types.Named); !ok || nn.Obj().Name() != tname {
								continue
							}
							if ct := e.prog.contractFor(fi.Obj); ct != nil && !(ct.Inline && ct.Kind == "func") {
								e.contractEffects(ct, fi.Obj, s2, ef)
							} else if !seen[fullName(fi.Obj)] && depth < e.maxInl {
								seen[fullName(fi.Obj)] = true
								e.collectEffects(fi.Decl.Body, fi.Pkg.TypesInfo, nil, ef, depth+1, seen)
							}
						}
					}
					return
				}
			}
		}
	}
	if conc := e.devirtTarget(fn, fn.Type().(*types.Signature)); conc != nil {
		fn = conc
		name = fullName(fn)
		if ct := e.prog.contractFor(fn); ct != nil && !(ct.Inline && ct.Kind == "func") {
			e.contractEffects(ct, fn, fn.Type().(*types.Signature), ef)
			return
		}
	}
	if fi := e.prog.funcs[name]; fi != nil && depth < e.maxInl && strings.HasPrefix(fi.Pkg.PkgPath, "lunar/") {
		if seen[name] {
			return
		}
		seen[name] = true
		e.collectEffects(fi.Decl.Body, fi.Pkg.TypesInfo, nil, ef, depth+1, seen)
		return
	}
	ef.all = true
}

func (e *Exec) mapEffect(bt *Type, ef *Effects) {
	ef.heap["MD!"+mapKeyName(e, bt)] = &Type{K: KGMap, Key: tInt, Elem: &Type{K: KGMap, Key: bt.Key, Elem: tBool}}
	ef.heap["MV!"+mapKeyName(e, bt)] = &Type{K: KGMap, Key: tInt, Elem: &Type{K: KGMap, Key: bt.Key, Elem: bt.Elem}}
}

// contractEffects: heap keys named by the modifies clause of a contract (typed through the signature only).
func (e *Exec) contractEffects(ct *Contract, fn *types.Func, sig *types.Signature, ef *Effects) {
	var recv *Term
	var args []Term
	if sig != nil {
		if sig.Recv() != nil {
			rgt := sig.Recv().Type()
			if e.effRecvType != nil {
				rgt = instantiateRecv(rgt, e.effRecvType, e.effSubst)
			}
			rt := e.prog.TypeOf(rgt, e.effSubst)
			recv = &Term{"0", rt}
		} else if ct.Kind == "field" {
			// receiver of a field contract: the struct owning the field; typed by name lookup
			if pk := e.prog.pkgs[ct.PkgPath]; pk != nil {
				tn := ct.Key
				if i := strings.Index(tn, "."); i >= 0 {
					tn = tn[:i]
				}
				if obj := pk.Types.Scope().Lookup(tn); obj != nil {
					rt := e.prog.TypeOf(types.NewPointer(obj.Type()), nil)
					recv = &Term{"0", rt}
				}
			}
		}
		for i := 0; i < sig.Params().Len(); i++ {
			args = append(args, Term{"0", e.prog.TypeOf(sig.Params().At(i).Type(), nil)})
		}
	}
	if ct.Kind == "func" && !ct.HasMod {
		ef.all = true
	}
	bound, cfr := e.contractScope(ct, fn, sig, recv, args)
	scratch := &State{pc: "true", vars: map[string]Term{}}
	sc := &Ctx{st: scratch, fr: cfr, spec: true, bound: bound}
	for _, m := range ct.Modifies {
		switch x := m.(type) {
		case *ast.Ident:
			if x.Name == "heap" {
				ef.all = true
			} else if x.Name == "now" {
				ef.time = true
			} else if g, ok := e.prog.ghostVars[x.Name]; ok {
				ef.heap["GV!"+g.Name] = g.Type
			}
		case *ast.SelectorExpr:
			base := e.eval(x.X, sc)
			path := e.findField(base.T, x.Sel.Name, 0)
			if path != nil && base.T.K == KRef {
				ef.heap[heapKey(base.T.Name, path[0].Name)] = &Type{K: KGMap, Key: tInt, Elem: path[0].Type}
			} else {
				ef.all = true
			}
		case *ast.CallExpr:
			id, _ := x.Fun.(*ast.Ident)
			switch {
			case id != nil && (id.Name == "now"):
				ef.time = true
			case id != nil && id.Name == "heap":
				ef.all = true
			case id != nil && id.Name == "mapof":
				mv := e.eval(x.Args[0], sc)
				if mv.T.K == KMap {
					e.mapEffect(mv.T, ef)
				} else {
					ef.all = true
				}
			case id != nil && id.Name == "allof":
				if se, ok := x.Args[0].(*ast.SelectorExpr); ok {
					t := e.specType(se.X, sc)
					if path := e.findField(t, se.Sel.Name, 0); path != nil {
						ef.heap[heapKey(t.Name, path[0].Name)] = &Type{K: KGMap, Key: tInt, Elem: path[0].Type}
						continue
					}
				}
				ef.all = true
			case id != nil && id.Name == "opall":
				if se, ok := x.Args[0].(*ast.SelectorExpr); ok {
					t := e.specType(se.X, sc)
					ef.heap["OP!"+t.Name+"!"+se.Sel.Name] = &Type{K: KGMap, Key: tInt, Elem: tInt}
				}
			case id != nil && id.Name == "ovof":
				_, fld := e.syncMapOwner(x.Args[0], sc)
				ef.heap["OV!"+fld] = &Type{K: KGMap, Key: tInt, Elem: tAny}
			case id != nil && id.Name == "cell":
				pv := e.eval(x.Args[0], sc)
				if pv.T.K == KRef && pv.T.Name == "" {
					ef.heap["P!"+mangle(e.Sort(pv.T.Elem))] = &Type{K: KGMap, Key: tInt, Elem: pv.T.Elem}
				} else {
					ef.all = true
				}
			case id != nil && id.Name == "opof":
				_, fld := e.syncMapOwner(x.Args[0], sc)
				ef.heap["OP!"+fld] = &Type{K: KGMap, Key: tInt, Elem: tInt}
			case id != nil && id.Name == "smapof":
				_, fld := e.syncMapOwner(x.Args[0], sc)
				ef.heap["SM!"+fld+"!dom"] = &Type{K: KGMap, Key: tInt, Elem: &Type{K: KGMap, Key: tAny, Elem: tBool}}
				ef.heap["SM!"+fld+"!val"] = &Type{K: KGMap, Key: tInt, Elem: &Type{K: KGMap, Key: tAny, Elem: tAny}}
			default:
				ef.all = true
			}
		}
	}
}

func (e *Exec) havocEffects(st *State, fr *Frame, ef *Effects) {
	if ef.all {
		e.note("loop at %s contains a call without a frame: all heap state is havocked at the loop head", e.curPos)
		e.havocAll(st)
		for k, v := range st.vars {
			if strings.HasPrefix(k, "GV!") || strings.HasPrefix(k, "$held!") {
				e.havocKey(st, k, v.T)
			}
		}
	}
	for k, t := range ef.locals {
		if _, ok := st.vars[k]; ok {
			e.havocKey(st, k, t)
		}
	}
	// row-level havoc for maps written through an expression that the loop does not change
	var rowMaps []Term
	for i, mx := range ef.mapExprs {
		stable := true
		ast.Inspect(mx, func(n ast.Node) bool {
			if id, ok := n.(*ast.Ident); ok {
				obj := fr.info.Uses[id]
				if obj == nil {
					obj = fr.info.Defs[id]
				}
				if v, ok := obj.(*types.Var); ok && !v.IsField() {
					if _, assigned := ef.locals[e.keyOf(v)]; assigned {
						stable = false
					}
				}
			}
			if se, ok := n.(*ast.SelectorExpr); ok {
				// a field path: stable only if that field array is not written in the loop
				if tv, ok := fr.info.Types[se.X]; ok {
					bt := e.prog.TypeOf(tv.Type, fr.subst)
					if bt.K == KRef && bt.Name != "" {
						if _, written := ef.heap[heapKey(bt.Name, se.Sel.Name)]; written {
							stable = false
						}
					}
				}
			}
			return true
		})
		if !stable || ef.all {
			e.mapEffect(ef.mapTypes[i], ef)
			continue
		}
		saved := e.safety
		e.safety = false
		mv := e.eval(mx, &Ctx{st: st, fr: fr})
		e.safety = saved
		rowMaps = append(rowMaps, mv)
	}
	for k, t := range ef.heap {
		e.havocKey(st, k, t)
	}
	for _, mv := range rowMaps {
		if _, whole := ef.heap["MD!"+mapKeyName(e, mv.T)]; whole {
			continue
		}
		da := e.mapDomArr(st, mv.T)
		va := e.mapValArr(st, mv.T)
		nd := e.vc.FreshConst("loop_dom", fmt.Sprintf("(Array %s Bool)", e.Sort(mv.T.Key)))
		nv := e.vc.FreshConst("loop_val", fmt.Sprintf("(Array %s %s)", e.Sort(mv.T.Key), e.Sort(mv.T.Elem)))
		e.set(st, "MD!"+mapKeyName(e, mv.T), Term{fmt.Sprintf("(store %s %s %s)", da.S, mv.S, nd), da.T})
		e.set(st, "MV!"+mapKeyName(e, mv.T), Term{fmt.Sprintf("(store %s %s %s)", va.S, mv.S, nv), va.T})
	}
	if ef.time {
		e.advanceTime(st, "0")
	}
}

// isClockIface: a method of an interface named Clock / ClockI (the engine's injected clocks).
func isClockIface(fn *types.Func) bool {
	sig, ok := fn.Type().(*types.Signature)
	if !ok || sig.Recv() == nil {
		return false
	}
	n, ok := types.Unalias(sig.Recv().Type()).(*types.Named)
	if !ok {
		return false
	}
	if _, isIface := n.Underlying().(*types.Interface); !isIface {
		return false
	}
	return n.Obj().Name() == "Clock" || n.Obj().Name() == "ClockI"
}

// instantiateRecv: the callee's (generic) receiver type instantiated with the type arguments of the static type of the
// receiver expression at the call (Cache[string,RetryState] => *MemoryCache[string,RetryState]).
func instantiateRecv(calleeRecv types.Type, static types.Type, subst map[*types.TypeParam]types.Type) types.Type {
	st := static
	if p, ok := st.(*types.Pointer); ok {
		st = p.Elem()
	}
	sn, ok := types.Unalias(st).(*types.Named)
	if !ok || sn.TypeArgs() == nil || sn.TypeArgs().Len() == 0 {
		return calleeRecv
	}
	var targs []types.Type
	for i := 0; i < sn.TypeArgs().Len(); i++ {
		targs = append(targs, resolve(sn.TypeArgs().At(i), subst))
	}
	base := calleeRecv
	isPtr := false
	if pt, ok := base.(*types.Pointer); ok {
		base, isPtr = pt.Elem(), true
	}
	nn, ok := types.Unalias(base).(*types.Named)
	if !ok || nn.Origin().TypeParams().Len() != len(targs) {
		return calleeRecv
	}
	it, err := types.Instantiate(nil, nn.Origin(), targs, false)
	if err != nil {
		return calleeRecv
	}
	if isPtr {
		return types.NewPointer(it)
	}
	return it
}
