package main

import (
	"fmt"
	"go/types"
	"regexp"
	"strings"
)

var byteRe = regexp.MustCompile(`\bbyte\b`)
var runeRe = regexp.MustCompile(`\brune\b`)

type Kind int

const (
	KInt Kind = iota
	KBool
	KReal
	KStr
	KRef    // pointer (to a struct: Name set; otherwise Elem set)
	KStruct // struct value (SMT datatype)
	KMap    // Go map: a reference
	KSlice  // value sequence
	KAny    // interface value
	KFunc
	KChan
	KOpaque // values we do not look into (mutexes, loggers, ...), sort Int
	KTuple
	KNil  // untyped nil
	KGMap // ghost total map (SMT array)
	KUnit
)

type Type struct {
	K     Kind
	Name  string // struct name for KStruct and KRef-to-struct
	Key   *Type
	Elem  *Type
	G     types.Type
	Tuple []*Type
	St    *types.Struct // for KStruct / KRef-to-struct
	Subst map[*types.TypeParam]types.Type
}

var (
	tInt    = &Type{K: KInt, G: types.Typ[types.Int]}
	tInt64  = &Type{K: KInt, G: types.Typ[types.Int64]}
	tBool   = &Type{K: KBool, G: types.Typ[types.Bool]}
	tReal   = &Type{K: KReal, G: types.Typ[types.Float64]}
	tStr    = &Type{K: KStr, G: types.Typ[types.String]}
	tAny    = &Type{K: KAny}
	tNil    = &Type{K: KNil}
	tOpaque = &Type{K: KOpaque}
	tUnit   = &Type{K: KUnit}
)

type Term struct {
	S string
	T *Type
}

func (t *Type) String() string {
	if t == nil {
		return "<nil>"
	}
	switch t.K {
	case KInt:
		return "int"
	case KBool:
		return "bool"
	case KReal:
		return "real"
	case KStr:
		return "string"
	case KRef:
		if t.Name != "" {
			return "*" + t.Name
		}
		return "*" + t.Elem.String()
	case KStruct:
		return t.Name
	case KMap:
		return "map[" + t.Key.String() + "]" + t.Elem.String()
	case KSlice:
		return "[]" + t.Elem.String()
	case KAny:
		return "any"
	case KGMap:
		return "gmap[" + t.Key.String() + "]" + t.Elem.String()
	}
	return fmt.Sprintf("kind%d", t.K)
}

func qualifiedName(n *types.Named) string {
	o := n.Origin().Obj()
	s := o.Name()
	if o.Pkg() != nil {
		s = o.Pkg().Path() + "." + s
	}
	if ta := n.TypeArgs(); ta != nil && ta.Len() > 0 {
		var as []string
		for i := 0; i < ta.Len(); i++ {
			as = append(as, types.TypeString(ta.At(i), func(p *types.Package) string { return p.Name() }))
		}
		s += "[" + strings.Join(as, ",") + "]"
	}
	return s
}

// baseName strips the type arguments of a generic struct name (ghost fields and monitors are declared per generic type).
func baseName(s string) string {
	if i := strings.Index(s, "["); i >= 0 {
		return s[:i]
	}
	return s
}

func shortStructName(full string) string {
	full = baseName(full)
	if i := strings.LastIndex(full, "."); i >= 0 {
		return full[i+1:]
	}
	return full
}

// resolve applies the type-parameter substitution.
func resolve(t types.Type, subst map[*types.TypeParam]types.Type) types.Type {
	for i := 0; i < 8; i++ {
		tp, ok := t.(*types.TypeParam)
		if !ok {
			return t
		}
		r, ok := subst[tp]
		if !ok || r == t {
			return t
		}
		t = r
	}
	return t
}

var opaquePkgs = map[string]bool{
	"sync": true, "sync/atomic": true, "github.com/rs/zerolog": true, "context": true,
	"go.opentelemetry.io/otel/metric": true, "regexp": true, "net/http": true, "os": true, "github.com/valyala/fastjson": true,
}

// TypeOf maps a Go type to the verifier's type.
func (p *Program) TypeOf(t types.Type, subst map[*types.TypeParam]types.Type) *Type {
	if t == nil {
		return tUnit
	}
	t = resolve(t, subst)
	t = types.Unalias(t)
	switch x := t.(type) {
	case *types.TypeParam:
		return &Type{K: KOpaque, G: t}
	case *types.Named:
		obj := x.Obj()
		if obj.Pkg() != nil {
			pp := obj.Pkg().Path()
			if pp == "time" && obj.Name() == "Time" {
				return &Type{K: KInt, G: t}
			}
			if opaquePkgs[pp] {
				if _, isIface := x.Underlying().(*types.Interface); !isIface {
					return &Type{K: KOpaque, G: t}
				}
			}
		}
		// substitution for instantiated generics
		sub := subst
		if x.TypeArgs() != nil && x.TypeArgs().Len() > 0 {
			sub = map[*types.TypeParam]types.Type{}
			for k, v := range subst {
				sub[k] = v
			}
			tps := x.Origin().TypeParams()
			var targs []types.Type
			changed := false
			for i := 0; i < tps.Len() && i < x.TypeArgs().Len(); i++ {
				r := resolve(x.TypeArgs().At(i), subst)
				sub[tps.At(i)] = r
				targs = append(targs, r)
				if r != x.TypeArgs().At(i) {
					changed = true
				}
			}
			if changed && len(targs) == tps.Len() {
				// canonical Go type with the type arguments resolved (dynamic-type tags are keyed by its string)
				if it, err := types.Instantiate(nil, x.Origin(), targs, false); err == nil {
					t = it
					if nn, ok := it.(*types.Named); ok {
						x = nn
					}
				}
			}
		}
		switch u := x.Underlying().(type) {
		case *types.Struct:
			us := u
			if x.TypeArgs() != nil && x.TypeArgs().Len() > 0 {
				// use the origin's struct so that field types mention the origin's type params
				if os, ok := x.Origin().Underlying().(*types.Struct); ok {
					us = os
				}
			}
			return &Type{K: KStruct, Name: qualifiedName(x), G: t, St: us, Subst: sub}
		default:
			r := p.TypeOf(u, sub)
			c := *r
			c.G = t
			return &c
		}
	case *types.Basic:
		info := x.Info()
		switch {
		case info&types.IsBoolean != 0:
			return &Type{K: KBool, G: t}
		case info&types.IsInteger != 0:
			return &Type{K: KInt, G: t}
		case info&types.IsFloat != 0:
			return &Type{K: KReal, G: t}
		case info&types.IsString != 0:
			return &Type{K: KStr, G: t}
		case x.Kind() == types.UntypedNil:
			return tNil
		}
		return &Type{K: KOpaque, G: t}
	case *types.Pointer:
		el := p.TypeOf(x.Elem(), subst)
		var g types.Type = t
		if el.G != nil && el.G != x.Elem() {
			g = types.NewPointer(el.G) // canonical (type arguments resolved)
		}
		if el.K == KStruct {
			return &Type{K: KRef, Name: el.Name, G: g, St: el.St, Subst: el.Subst}
		}
		return &Type{K: KRef, Elem: el, G: g}
	case *types.Struct:
		return &Type{K: KStruct, Name: "anon." + mangle(x.String()), G: t, St: x, Subst: subst}
	case *types.Map:
		return &Type{K: KMap, Key: p.TypeOf(x.Key(), subst), Elem: p.TypeOf(x.Elem(), subst), G: t}
	case *types.Slice:
		return &Type{K: KSlice, Elem: p.TypeOf(x.Elem(), subst), G: t}
	case *types.Array:
		return &Type{K: KSlice, Elem: p.TypeOf(x.Elem(), subst), G: t}
	case *types.Interface:
		return &Type{K: KAny, G: t}
	case *types.Signature:
		return &Type{K: KFunc, G: t}
	case *types.Chan:
		return &Type{K: KChan, G: t}
	case *types.Tuple:
		tt := &Type{K: KTuple, G: t}
		for i := 0; i < x.Len(); i++ {
			tt.Tuple = append(tt.Tuple, p.TypeOf(x.At(i).Type(), subst))
		}
		return tt
	}
	return &Type{K: KOpaque, G: t}
}

// Sort returns the SMT sort of a type (declaring datatypes on demand).
func (e *Exec) Sort(t *Type) string {
	switch t.K {
	case KInt, KRef, KMap, KFunc, KChan, KOpaque, KNil, KUnit:
		return "Int"
	case KBool:
		return "Bool"
	case KReal:
		return "Real"
	case KStr:
		return e.vc.StrSort()
	case KAny:
		return "Any"
	case KGMap:
		return fmt.Sprintf("(Array %s %s)", e.Sort(t.Key), e.Sort(t.Elem))
	case KSlice:
		es := e.Sort(t.Elem)
		n := "Seq!" + mangle(es)
		e.vc.Decl("sort:"+n, fmt.Sprintf("(declare-datatypes ((%s 0)) (((mk!%s (arr!%s (Array Int %s)) (rawlen!%s Int)))))\n(define-fun len!%s ((s!l %s)) Int (ite (< (rawlen!%s s!l) 0) 0 (rawlen!%s s!l)))", n, n, n, es, n, n, n, n, n))
		return n
	case KStruct:
		n := "S!" + mangle(t.Name)
		if e.vc.declared["sort:"+n] {
			return n
		}
		// declare field sorts first
		var fs []string
		if t.St != nil {
			for i := 0; i < t.St.NumFields(); i++ {
				f := t.St.Field(i)
				ft := e.prog.TypeOf(f.Type(), t.Subst)
				fs = append(fs, fmt.Sprintf("(%s!%s %s)", n, f.Name(), e.Sort(ft)))
			}
		}
		for _, g := range e.prog.ghostFields[baseName(t.Name)] {
			fs = append(fs, fmt.Sprintf("(%s!%s %s)", n, g.Name, e.Sort(g.Type)))
		}
		if len(fs) == 0 {
			fs = append(fs, fmt.Sprintf("(%s!_dummy Int)", n))
		}
		e.vc.Decl("sort:"+n, fmt.Sprintf("(declare-datatypes ((%s 0)) (((mk!%s %s))))", n, n, strings.Join(fs, " ")))
		return n
	}
	return "Int"
}

// fieldsOf lists (name, type) of a struct type including ghost fields.
type fieldInfo struct {
	Name  string
	Type  *Type
	Ghost bool
}

func (e *Exec) fieldsOf(t *Type) []fieldInfo {
	var out []fieldInfo
	if t.St != nil {
		for i := 0; i < t.St.NumFields(); i++ {
			f := t.St.Field(i)
			out = append(out, fieldInfo{f.Name(), e.prog.TypeOf(f.Type(), t.Subst), false})
		}
	}
	for _, g := range e.prog.ghostFields[baseName(t.Name)] {
		out = append(out, fieldInfo{g.Name, g.Type, true})
	}
	return out
}

// zero value of a type
func (e *Exec) Zero(t *Type) Term {
	switch t.K {
	case KInt:
		if t.G != nil {
			if n, ok := types.Unalias(t.G).(*types.Named); ok && n.Obj().Pkg() != nil && n.Obj().Pkg().Path() == "time" && n.Obj().Name() == "Time" {
				return Term{"(- 62135596800000000000)", t}
			}
		}
		return Term{"0", t}
	case KRef, KMap, KFunc, KChan, KNil, KUnit:
		return Term{"0", t}
	case KOpaque:
		return Term{"0", t}
	case KBool:
		return Term{"false", t}
	case KReal:
		return Term{"0.0", t}
	case KStr:
		return Term{e.vc.StrLit(""), t}
	case KAny:
		return Term{"A_nil", t}
	case KSlice:
		s := e.Sort(t)
		// one fixed (arbitrary) backing array per element sort: the zero slice is a single value
		arr := "zarr!" + mangle(e.Sort(t.Elem))
		e.vc.Decl("fun:"+arr, fmt.Sprintf("(declare-fun %s () (Array Int %s))", arr, e.Sort(t.Elem)))
		return Term{fmt.Sprintf("(mk!%s %s 0)", s, arr), t}
	case KStruct:
		s := e.Sort(t)
		var args []string
		for _, f := range e.fieldsOf(t) {
			args = append(args, e.Zero(f.Type).S)
		}
		if len(args) == 0 {
			args = []string{"0"}
		}
		return Term{fmt.Sprintf("(mk!%s %s)", mangle2(s), strings.Join(args, " ")), t}
	case KGMap:
		return Term{fmt.Sprintf("((as const %s) %s)", e.Sort(t), e.Zero(t.Elem).S), t}
	}
	return Term{"0", t}
}

func mangle2(s string) string { return s }

// tagOf returns the dynamic-type tag used when a value of Go type g is boxed into an interface.
func (e *Exec) tagOf(t *Type) int {
	name := t.String()
	if t.G != nil {
		name = types.TypeString(t.G, nil)
	}
	// byte and rune are aliases of uint8 and int32
	name = byteRe.ReplaceAllString(name, "uint8")
	name = runeRe.ReplaceAllString(name, "int32")
	return e.vc.Tag(name)
}
