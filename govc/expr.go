package main

import (
	"fmt"
	"go/ast"
	"go/constant"
	"go/token"
	"go/types"
	"math/big"
	"strconv"
	"strings"
)

// Ctx is the evaluation context: code (side effects, obligations) or spec
// (pure, names resolved by name, old-state available).
type Ctx struct {
	st    *State
	old   *State
	fr    *Frame
	spec  bool
	bound map[string]Term
	cur   *State // inside old(...): the current state (body locals have no entry value: old() leaves them as they are)
}

func (c *Ctx) with(name string, t Term) *Ctx {
	n := *c
	n.bound = map[string]Term{}
	for k, v := range c.bound {
		n.bound[k] = v
	}
	n.bound[name] = t
	return &n
}

func intLit(v *big.Int) string {
	if v.Sign() < 0 {
		return "(- " + new(big.Int).Neg(v).String() + ")"
	}
	return v.String()
}

func (e *Exec) constTerm(v constant.Value, t *Type) (Term, bool) {
	switch v.Kind() {
	case constant.Bool:
		if constant.BoolVal(v) {
			return Term{"true", tBool}, true
		}
		return Term{"false", tBool}, true
	case constant.String:
		return Term{e.vc.StrLit(constant.StringVal(v)), tStr}, true
	case constant.Int:
		bi, ok := constant.Val(v).(*big.Int)
		if !ok {
			i64, _ := constant.Int64Val(v)
			bi = big.NewInt(i64)
		}
		if t != nil && t.K == KReal {
			return Term{realLit(intLit(bi)), t}, true
		}
		tt := tInt
		if t != nil && t.K == KInt {
			tt = t
		}
		return Term{intLit(bi), tt}, true
	case constant.Float:
		if t != nil && t.K == KInt {
			if iv := constant.ToInt(v); iv.Kind() == constant.Int {
				return e.constTerm(iv, t)
			}
		}
		r, _ := constant.Float64Val(v)
		rat := new(big.Rat)
		rat.SetFloat64(r)
		if rv, ok := constant.Val(v).(*big.Rat); ok {
			rat = rv
		}
		num, den := rat.Num(), rat.Denom()
		s := fmt.Sprintf("(/ %s.0 %s.0)", new(big.Int).Abs(num).String(), den.String())
		if num.Sign() < 0 {
			s = "(- " + s + ")"
		}
		tt := tReal
		if t != nil && t.K == KReal {
			tt = t
		}
		return Term{s, tt}, true
	}
	return Term{}, false
}

func realLit(i string) string {
	if strings.HasPrefix(i, "(- ") {
		return "(- " + strings.TrimSuffix(i[3:], ")") + ".0)"
	}
	return i + ".0"
}

// evalCond evaluates a Boolean expression to an SMT term.
func (e *Exec) evalCond(x ast.Expr, c *Ctx) string {
	t := e.eval(x, c)
	if t.T.K != KBool {
		e.errorf("%s: expected a boolean, got %s in %s", e.curPos, t.T, exprText(x))
		return "true"
	}
	return t.S
}

func exprText(x ast.Expr) string {
	return types.ExprString(x)
}

func (e *Exec) eval(x ast.Expr, c *Ctx) Term {
	if !c.spec && c.fr != nil && c.fr.info != nil {
		if tv, ok := c.fr.info.Types[x]; ok && tv.Value != nil {
			t := e.prog.TypeOf(tv.Type, c.fr.subst)
			if r, ok := e.constTerm(tv.Value, t); ok {
				if r.T.K == t.K {
					r.T = t
				}
				return r
			}
		}
	}
	switch v := x.(type) {
	case *ast.ParenExpr:
		return e.eval(v.X, c)
	case *ast.BasicLit:
		switch v.Kind {
		case token.INT:
			bi, _ := new(big.Int).SetString(v.Value, 0)
			if bi == nil {
				bi = big.NewInt(0)
			}
			return Term{intLit(bi), tInt}
		case token.FLOAT:
			f, _ := strconv.ParseFloat(v.Value, 64)
			r := new(big.Rat)
			r.SetFloat64(f)
			return Term{fmt.Sprintf("(/ %s.0 %s.0)", r.Num().String(), r.Denom().String()), tReal}
		case token.STRING:
			s, _ := strconv.Unquote(v.Value)
			return Term{e.vc.StrLit(s), tStr}
		case token.CHAR:
			s, _ := strconv.Unquote(v.Value)
			r := []rune(s)
			if len(r) > 0 {
				return Term{strconv.Itoa(int(r[0])), tInt}
			}
		}
	case *ast.Ident:
		return e.ident(v, c)
	case *ast.SelectorExpr:
		return e.selector(v, c)
	case *ast.StarExpr:
		p := e.eval(v.X, c)
		return e.deref(p, c, v)
	case *ast.UnaryExpr:
		return e.unary(v, c)
	case *ast.BinaryExpr:
		return e.binary(v, c)
	case *ast.CallExpr:
		r := e.call(v, c, 1)
		if len(r) > 0 {
			return r[0]
		}
		return Term{"0", tUnit}
	case *ast.IndexExpr:
		return e.index(v, c)
	case *ast.SliceExpr:
		return e.sliceExpr(v, c)
	case *ast.TypeAssertExpr:
		sv := e.eval(v.X, c)
		if c.spec {
			t := e.specType(v.Type, c)
			val, _ := e.fromAny(sv, t, c.st)
			return val
		}
		t := e.prog.TypeOf(c.fr.info.Types[v.Type].Type, c.fr.subst)
		val, ok := e.fromAny(sv, t, c.st)
		e.safetyAssert(c, "type-assert", ok, exprText(v), v)
		return val
	case *ast.CompositeLit:
		return e.compositeLit(v, c, false)
	case *ast.FuncLit:
		c.fr.litOrd++
		id := e.vc.FreshConst("closure", "Int")
		e.litVals[id] = v
		return Term{id, &Type{K: KFunc}}
	case *ast.KeyValueExpr:
		return e.eval(v.Value, c)
	}
	e.errorf("%s: unsupported expression %T %s", e.curPos, x, exprText(x))
	return Term{e.vc.FreshConst("unk", "Int"), tOpaque}
}

func (e *Exec) specType(x ast.Expr, c *Ctx) *Type {
	s := exprText(x)
	// a ghost type that is not a Go expression (gmap[...]...) is written as a string literal
	if bl, ok := x.(*ast.BasicLit); ok && bl.Kind == token.STRING {
		if u, err := strconv.Unquote(bl.Value); err == nil {
			s = u
		}
	}
	// a type parameter of the function under verification
	for f := c.fr; f != nil; f = f.parent {
		if f.fi == nil {
			continue
		}
		sig := f.fi.Obj.Type().(*types.Signature)
		for _, tps := range []*types.TypeParamList{sig.RecvTypeParams(), sig.TypeParams()} {
			if tps == nil {
				continue
			}
			for i := 0; i < tps.Len(); i++ {
				if tps.At(i).Obj().Name() == s {
					return e.prog.TypeOf(tps.At(i), f.subst)
				}
			}
		}
	}
	t, err := e.prog.parseGhostType(s, c.fr.pkg)
	if err != nil {
		e.errorf("spec type %s: %v", s, err)
		return tInt
	}
	return t
}

func (e *Exec) ident(v *ast.Ident, c *Ctx) Term {
	switch v.Name {
	case "true":
		return Term{"true", tBool}
	case "false":
		return Term{"false", tBool}
	case "nil":
		return Term{"0", tNil}
	case "_":
		return Term{"0", tUnit}
	}
	if c.bound != nil {
		if t, ok := c.bound[v.Name]; ok {
			return t
		}
	}
	if !c.spec {
		obj := c.fr.info.Uses[v]
		if obj == nil {
			obj = c.fr.info.Defs[v]
		}
		if obj != nil {
			return e.objValue(obj, c)
		}
	}
	// spec: by name
	if k, ok := c.fr.names[v.Name]; ok {
		if t, ok2 := e.escapedValue(c.st, k); ok2 {
			return t
		}
		if t, ok2 := c.st.vars[k]; ok2 {
			return t
		}
		if c.cur != nil {
			// old(e) affects the heap and the entry values of parameters; a local declared in the body keeps its current value
			if t, ok2 := c.cur.vars[k]; ok2 {
				return t
			}
		}
		if t, ok2 := e.init0[k]; ok2 {
			return t
		}
		if ty, ok2 := c.fr.ntypes[v.Name]; ok2 {
			return e.get(c.st, k, ty)
		}
	}
	if c.fr.hosted && c.spec {
		for f := c.fr.parent; f != nil; f = f.parent {
			if k, ok := f.names[v.Name]; ok {
				if t, ok2 := e.escapedValue(c.st, k); ok2 {
					return t
				}
				if t, ok2 := c.st.vars[k]; ok2 {
					return t
				}
				if ty, ok2 := f.ntypes[v.Name]; ok2 {
					return e.get(c.st, k, ty)
				}
			}
			if f.top {
				break
			}
		}
	}
	if g, ok := e.prog.ghostVars[v.Name]; ok {
		return e.get(c.st, "GV!"+g.Name, g.Type)
	}
	if c.fr.pkg != nil && c.fr.pkg.Types != nil {
		if obj := c.fr.pkg.Types.Scope().Lookup(v.Name); obj != nil {
			return e.objValue(obj, c)
		}
	}
	e.errorf("%s: unresolved name %q in spec", e.curPos, v.Name)
	return Term{e.vc.FreshConst("unres_"+v.Name, "Int"), tOpaque}
}

func (e *Exec) objValue(obj types.Object, c *Ctx) Term {
	switch o := obj.(type) {
	case *types.Const:
		t := e.prog.TypeOf(o.Type(), c.fr.subst)
		if r, ok := e.constTerm(o.Val(), t); ok {
			if r.T.K == t.K {
				r.T = t
			}
			return r
		}
	case *types.Var:
		t := e.prog.TypeOf(o.Type(), c.fr.subst)
		if !o.IsField() && o.Pkg() != nil && o.Parent() == o.Pkg().Scope() {
			if v, ok := e.finalGlobal(o, c); ok {
				return v
			}
		}
		if v, ok := e.escapedValue(c.st, e.keyOf(o)); ok {
			return v
		}
		return e.get(c.st, e.keyOf(o), t)
	case *types.Nil:
		return Term{"0", tNil}
	case *types.Func:
		// a declared function used as a value: one non-nil constant per function
		n := "funcval!" + mangle(shortName(o.FullName()))
		if !e.vc.declared["fun:"+n] {
			e.vc.Decl("fun:"+n, fmt.Sprintf("(declare-fun %s () Int)\n(assert (> %s 0))", n, n))
		}
		return Term{n, &Type{K: KFunc, G: o.Type()}}
	}
	e.errorf("%s: unsupported object %v", e.curPos, obj)
	return Term{e.vc.FreshConst("unk", "Int"), tOpaque}
}

// A local (non-struct) variable whose address was taken lives in a cell from then on: reads go through the cell (a callee
// may have written it through the pointer), writes update it.
func (e *Exec) escapedValue(st *State, key string) (Term, bool) {
	p, ok := st.vars["&addr!"+key]
	if ok && p.T.K == KRef && p.T.Name != "" {
		// a struct local whose address was taken: its value is what the heap object holds now
		sty := &Type{K: KStruct, Name: p.T.Name, St: p.T.St, Subst: p.T.Subst}
		var args []string
		for _, f := range e.fieldsOf(sty) {
			h := e.heapArr(st, p.T.Name, f)
			args = append(args, fmt.Sprintf("(select %s %s)", h.S, p.S))
		}
		if len(args) == 0 {
			args = []string{"0"}
		}
		return Term{fmt.Sprintf("(mk!%s %s)", e.Sort(sty), strings.Join(args, " ")), sty}, true
	}
	if !ok || p.T.K != KRef || p.T.Name != "" || p.T.Elem == nil {
		return Term{}, false
	}
	at := &Type{K: KGMap, Key: tInt, Elem: p.T.Elem}
	h := e.get(st, "P!"+mangle(e.Sort(p.T.Elem)), at)
	return Term{fmt.Sprintf("(select %s %s)", h.S, p.S), p.T.Elem}, true
}

func (e *Exec) escapedStore(st *State, key string, v Term) {
	p, ok := st.vars["&addr!"+key]
	if ok && p.T.K == KRef && p.T.Name != "" && v.T != nil && v.T.K == KStruct {
		for _, f := range e.fieldsOf(v.T) {
			h := e.heapArr(st, p.T.Name, f)
			e.set(st, heapKey(p.T.Name, f.Name), Term{fmt.Sprintf("(store %s %s (%s!%s %s))", h.S, p.S, e.Sort(v.T), f.Name, v.S), h.T})
		}
		return
	}
	if !ok || p.T.K != KRef || p.T.Name != "" || p.T.Elem == nil {
		return
	}
	at := &Type{K: KGMap, Key: tInt, Elem: p.T.Elem}
	k := "P!" + mangle(e.Sort(p.T.Elem))
	h := e.get(st, k, at)
	e.set(st, k, Term{fmt.Sprintf("(store %s %s %s)", h.S, p.S, e.coerce(v, p.T.Elem, st).S), at})
}

// ---------------------------------------------------------------- fields

type fieldStep struct {
	fi fieldInfo
}

func (e *Exec) findField(t *Type, name string, depth int) []fieldInfo {
	if t == nil || (t.K != KStruct && !(t.K == KRef && t.Name != "")) || depth > 4 {
		return nil
	}
	fs := e.fieldsOf(t)
	for _, f := range fs {
		if f.Name == name {
			return []fieldInfo{f}
		}
	}
	if t.St != nil {
		for i := 0; i < t.St.NumFields(); i++ {
			sf := t.St.Field(i)
			if !sf.Embedded() {
				continue
			}
			ft := e.prog.TypeOf(sf.Type(), t.Subst)
			if sub := e.findField(ft, name, depth+1); sub != nil {
				return append([]fieldInfo{{sf.Name(), ft, false}}, sub...)
			}
		}
	}
	return nil
}

func heapKey(structName, field string) string { return "H!" + structName + "!" + field }

func (e *Exec) heapArr(st *State, structName string, f fieldInfo) Term {
	at := &Type{K: KGMap, Key: tInt, Elem: f.Type}
	return e.get(st, heapKey(structName, f.Name), at)
}

func (e *Exec) readField(base Term, f fieldInfo, c *Ctx, n ast.Node) Term {
	switch base.T.K {
	case KRef:
		if !c.spec {
			e.safetyAssert(c, "nil-deref", fmt.Sprintf("(not (= %s 0))", base.S), "", n)
			e.guardedBy(c, base, f.Name, n)
		}
		h := e.heapArr(c.st, base.T.Name, f)
		r := Term{fmt.Sprintf("(select %s %s)", h.S, base.S), f.Type}
		if !c.spec && (f.Type.K == KRef || f.Type.K == KMap) && len(e.guards) == 0 {
			// heap closure: a stored reference is nil or an allocated object of its kind
			e.refInv(c.st, r, 0)
		}
		return r
	case KStruct:
		return Term{fmt.Sprintf("(%s!%s %s)", e.Sort(base.T), f.Name, base.S), f.Type}
	}
	e.errorf("%s: field %s of non-struct %s", e.curPos, f.Name, base.T)
	return Term{e.vc.FreshConst("unk", e.Sort(f.Type)), f.Type}
}

func (e *Exec) selectField(base Term, name string, c *Ctx, n ast.Node) (Term, bool) {
	path := e.findField(base.T, name, 0)
	if path == nil {
		return Term{}, false
	}
	cur := base
	for _, f := range path {
		cur = e.readField(cur, f, c, n)
	}
	return cur, true
}

func (e *Exec) selector(v *ast.SelectorExpr, c *Ctx) Term {
	// package-qualified identifier
	if id, ok := v.X.(*ast.Ident); ok {
		if !c.spec {
			if pn, ok := c.fr.info.Uses[id].(*types.PkgName); ok {
				obj := pn.Imported().Scope().Lookup(v.Sel.Name)
				if obj != nil {
					return e.objValue(obj, c)
				}
			}
		} else if _, isLocal := c.fr.names[id.Name]; !isLocal && c.bound[id.Name].T == nil {
			// spec: imported package name?
			if c.fr.pkg != nil {
				for _, imp := range c.fr.pkg.Types.Imports() {
					if imp.Name() == id.Name {
						if obj := imp.Scope().Lookup(v.Sel.Name); obj != nil {
							return e.objValue(obj, c)
						}
					}
				}
				// file-local import aliases
				for _, f := range c.fr.pkg.Syntax {
					for _, is := range f.Imports {
						if is.Name != nil && is.Name.Name == id.Name {
							p, _ := strconv.Unquote(is.Path.Value)
							if ip := e.prog.pkgs[p]; ip != nil {
								if obj := ip.Types.Scope().Lookup(v.Sel.Name); obj != nil {
									return e.objValue(obj, c)
								}
							}
						}
					}
				}
			}
		}
	}
	base := e.eval(v.X, c)
	if r, ok := e.selectField(base, v.Sel.Name, c, v); ok {
		return r
	}
	if !c.spec {
		if sel, ok := c.fr.info.Selections[v]; ok && sel.Kind() == types.FieldVal {
			// a field of a struct outside the modelled packages (net/http.Request, ...): an arbitrary value of its type
			t := e.prog.TypeOf(sel.Type(), c.fr.subst)
			e.note("field %s of %s (not modelled): arbitrary value", v.Sel.Name, base.T)
			return Term{e.vc.FreshConst("extfield_"+v.Sel.Name, e.Sort(t)), t}
		}
		// method value: remember receiver and method so that a later call through the variable resolves
		id := e.vc.FreshConst("methodval", "Int")
		if sel, ok := c.fr.info.Selections[v]; ok && sel.Kind() == types.MethodVal {
			if fn, ok := sel.Obj().(*types.Func); ok {
				e.methodVals[id] = methodVal{fn, base}
			}
		}
		return Term{id, &Type{K: KFunc}}
	}
	e.errorf("%s: no field %s in %s (spec %s)", e.curPos, v.Sel.Name, base.T, exprText(v))
	return Term{e.vc.FreshConst("unk", "Int"), tOpaque}
}

func (e *Exec) deref(p Term, c *Ctx, n ast.Node) Term {
	if p.T.K != KRef {
		e.errorf("%s: deref of %s", e.curPos, p.T)
		return p
	}
	if !c.spec {
		e.safetyAssert(c, "nil-deref", fmt.Sprintf("(not (= %s 0))", p.S), "", n)
	}
	if p.T.Name != "" {
		// struct value assembled from the heap
		st := &Type{K: KStruct, Name: p.T.Name, St: p.T.St, Subst: p.T.Subst}
		var args []string
		for _, f := range e.fieldsOf(st) {
			h := e.heapArr(c.st, p.T.Name, f)
			args = append(args, fmt.Sprintf("(select %s %s)", h.S, p.S))
		}
		if len(args) == 0 {
			args = []string{"0"}
		}
		return Term{fmt.Sprintf("(mk!%s %s)", e.Sort(st), strings.Join(args, " ")), st}
	}
	at := &Type{K: KGMap, Key: tInt, Elem: p.T.Elem}
	h := e.get(c.st, "P!"+mangle(e.Sort(p.T.Elem)), at)
	return Term{fmt.Sprintf("(select %s %s)", h.S, p.S), p.T.Elem}
}

// ---------------------------------------------------------------- operators

func (e *Exec) unary(v *ast.UnaryExpr, c *Ctx) Term {
	switch v.Op {
	case token.NOT:
		return Term{"(not " + e.evalCond(v.X, c) + ")", tBool}
	case token.SUB:
		t := e.eval(v.X, c)
		return Term{"(- " + t.S + ")", t.T}
	case token.ADD:
		return e.eval(v.X, c)
	case token.AND:
		if cell, ok := e.addrCells[v]; ok && !c.spec {
			return cell // &x.fld passed to a call: the cell set up by call2 (copy-in / copy-out)
		}
		if cl, ok := v.X.(*ast.CompositeLit); ok {
			if !c.spec {
				if pt := e.prog.TypeOf(c.fr.info.Types[v].Type, c.fr.subst); pt.K == KRef && pt.Name == "" && pt.Elem != nil && (pt.Elem.K == KMap || pt.Elem.K == KSlice) {
					// &map[K]V{...} / &[]T{...}: a fresh cell that holds the map reference / the slice value
					val := e.compositeLit(cl, c, false)
					r := Term{e.alloc(c.st, "cell"), pt}
					at := &Type{K: KGMap, Key: tInt, Elem: pt.Elem}
					key := "P!" + mangle(e.Sort(pt.Elem))
					h := e.get(c.st, key, at)
					e.set(c.st, key, Term{fmt.Sprintf("(store %s %s %s)", h.S, r.S, e.coerce(val, pt.Elem, c.st).S), at})
					return r
				}
			}
			return e.compositeLit(cl, c, true)
		}
		// address of a local struct variable: the variable is moved to a fresh heap object (it escapes)
		if id, ok := unparen(v.X).(*ast.Ident); ok && !c.spec {
			if obj := c.fr.info.Uses[id]; obj != nil {
				if p, ok := c.st.vars["&addr!"+e.keyOf(obj)]; ok && p.T.K == KRef && p.T.Name != "" {
					return p
				}
			}
			val := e.eval(id, c)
			if val.T.K == KStruct {
				r := e.alloc(c.st, shortStructName(val.T.Name))
				for _, f := range e.fieldsOf(val.T) {
					h := e.heapArr(c.st, val.T.Name, f)
					e.set(c.st, heapKey(val.T.Name, f.Name), Term{fmt.Sprintf("(store %s %s (%s!%s %s))", h.S, r, e.Sort(val.T), f.Name, val.S), h.T})
				}
				rt := Term{r, &Type{K: KRef, Name: val.T.Name, St: val.T.St, Subst: val.T.Subst, G: ptrTo(val.T.G)}}
				if obj := c.fr.info.Uses[id]; obj != nil {
					if k := "&addr!" + e.keyOf(obj); c.st.vars[k].S == "" {
						c.st.vars[k] = rt // from now on the variable IS that heap object: reads and writes of it go through the heap
					}
				}
				return rt
			}
		}
		// address of a local (non-struct) variable: one opaque pointer per variable
		if id, ok := unparen(v.X).(*ast.Ident); ok && !c.spec {
			if obj := c.fr.info.Uses[id]; obj != nil {
				k := "&addr!" + e.keyOf(obj)
				t := e.prog.TypeOf(c.fr.info.Types[v].Type, c.fr.subst)
				if cur, ok := c.st.vars[k]; ok {
					return cur
				}
				cur := e.eval(id, c) // (before the variable is redirected to the cell)
				r := Term{e.alloc(c.st, "cell"), t}
				c.st.vars[k] = r
				// the cell holds the variable's current value (a later *p reads it)
				if t.K == KRef && t.Name == "" {
					at := &Type{K: KGMap, Key: tInt, Elem: t.Elem}
					key := "P!" + mangle(e.Sort(t.Elem))
					h := e.get(c.st, key, at)
					e.set(c.st, key, Term{fmt.Sprintf("(store %s %s %s)", h.S, r.S, e.coerce(cur, t.Elem, c.st).S), at})
				}
				return r
			}
		}
		// address of a slice element: a deterministic (non-nil) function of the backing array and the index; the
		// element is read through the slice, never through this pointer, in the code under contract
		if ix, ok := unparen(v.X).(*ast.IndexExpr); ok {
			base := e.eval(ix.X, c)
			if base.T.K == KSlice {
				idx := e.eval(ix.Index, c)
				if !c.spec {
					e.safetyAssert(c, "index", fmt.Sprintf("(and (<= 0 %s) (< %s %s))", idx.S, idx.S, e.seqLen(base)), exprText(ix), ix)
				}
				var pt *Type
				if !c.spec {
					pt = e.prog.TypeOf(c.fr.info.Types[v].Type, c.fr.subst)
				} else if base.T.Elem != nil && base.T.Elem.G != nil {
					pt = e.prog.TypeOf(types.NewPointer(base.T.Elem.G), nil)
				}
				if pt != nil {
					fn := "elemaddr!" + mangle(e.Sort(base.T))
					e.vc.Decl("fun:"+fn, fmt.Sprintf("(declare-fun %s ((Array Int %s) Int) Int)\n(assert (forall ((a!e (Array Int %s)) (i!e Int)) (! (> (%s a!e i!e) 0) :pattern ((%s a!e i!e)))))", fn, e.Sort(base.T.Elem), e.Sort(base.T.Elem), fn, fn))
					return Term{fmt.Sprintf("(%s %s %s)", fn, e.seqArr(base), idx.S), pt}
				}
			}
		}
		// address of a struct-typed field of a heap object (&x.inner): a deterministic, non-nil function of the object, the same
		// in code and in contracts (the inner struct is not read through this pointer in the code under contract)
		if sel, ok := unparen(v.X).(*ast.SelectorExpr); ok {
			base := e.eval(sel.X, c)
			if base.T.K == KRef && base.T.Name != "" {
				if path := e.findField(base.T, sel.Sel.Name, 0); len(path) == 1 && path[0].Type.K == KStruct && path[0].Type.G != nil {
					pt := e.prog.TypeOf(types.NewPointer(path[0].Type.G), nil)
					fn := "fieldaddr!" + mangle(base.T.Name) + "!" + sel.Sel.Name
					e.vc.Decl("fun:"+fn, fmt.Sprintf("(declare-fun %s (Int) Int)\n(assert (forall ((o!f Int)) (! (> (%s o!f) 0) :pattern ((%s o!f)))))", fn, fn, fn))
					return Term{fmt.Sprintf("(%s %s)", fn, base.S), pt}
				}
			}
		}
		// address of a field or variable: not modelled
		if !c.spec {
			t := e.prog.TypeOf(c.fr.info.Types[v].Type, c.fr.subst)
			e.note("address-of %s treated as an opaque pointer", exprText(v.X))
			r := Term{e.vc.FreshConst("addr", "Int"), t}
			e.assume(c.st, fmt.Sprintf("(> %s 0)", r.S))
			return r
		}
	case token.ARROW:
		ch := e.eval(v.X, c)
		_ = ch
		e.advanceTime(c.st, "0")
		e.interfere(c.st, c.fr)
		t := tOpaque
		if !c.spec {
			t = e.prog.TypeOf(c.fr.info.Types[v].Type, c.fr.subst)
			if t.K == KTuple {
				t = t.Tuple[0]
			}
		}
		return Term{e.vc.FreshConst("recv", e.Sort(t)), t}
	}
	e.errorf("%s: unsupported unary %s", e.curPos, v.Op)
	return Term{e.vc.FreshConst("unk", "Int"), tOpaque}
}

func hasCall(x ast.Expr) bool {
	found := false
	ast.Inspect(x, func(n ast.Node) bool {
		if _, ok := n.(*ast.CallExpr); ok {
			found = true
		}
		return !found
	})
	return found
}

func (e *Exec) binary(v *ast.BinaryExpr, c *Ctx) Term {
	if v.Op == token.LAND || v.Op == token.LOR {
		l := e.evalCond(v.X, c)
		if c.spec || !hasCall(v.Y) {
			g := l
			if v.Op == token.LOR {
				g = "(not " + l + ")"
			}
			var r string
			if c.spec {
				r = e.evalCond(v.Y, c)
			} else {
				e.guards = append(e.guards, g)
				r = e.evalCond(v.Y, c)
				e.guards = e.guards[:len(e.guards)-1]
			}
			if v.Op == token.LAND {
				return Term{fmt.Sprintf("(and %s %s)", l, r), tBool}
			}
			return Term{fmt.Sprintf("(or %s %s)", l, r), tBool}
		}
		// right operand has calls (possible side effects): branch
		ln := e.vc.Define("sc", "Bool", l)
		evalS := c.st.clone()
		skipS := c.st.clone()
		rk := fmt.Sprintf("$sc!%d", int(v.Pos()))
		if v.Op == token.LAND {
			e.assume(evalS, ln)
			e.assume(skipS, "(not "+ln+")")
			e.set(skipS, rk, Term{"false", tBool})
		} else {
			e.assume(evalS, "(not "+ln+")")
			e.assume(skipS, ln)
			e.set(skipS, rk, Term{"true", tBool})
		}
		c2 := *c
		c2.st = evalS
		r := e.evalCond(v.Y, &c2)
		e.set(evalS, rk, Term{r, tBool})
		m := e.merge([]*State{evalS, skipS})
		*c.st = *m
		return e.get(c.st, rk, tBool)
	}
	l := e.eval(v.X, c)
	r := e.eval(v.Y, c)
	return e.binop(v.Op, l, r, c, v)
}

func (e *Exec) toReal(t Term) Term {
	if t.T.K == KReal {
		return t
	}
	if isIntLiteral(t.S) {
		return Term{realLit(t.S), tReal}
	}
	return Term{"(to_real " + t.S + ")", tReal}
}

func isIntLiteral(s string) bool {
	if strings.HasPrefix(s, "(- ") {
		s = strings.TrimSuffix(s[3:], ")")
	}
	if s == "" {
		return false
	}
	for _, r := range s {
		if r < '0' || r > '9' {
			return false
		}
	}
	return true
}

func (e *Exec) eqTerm(l, r Term, st *State) string {
	// nil comparisons
	if l.T.K == KNil && r.T.K == KNil {
		return "true"
	}
	if r.T.K == KNil {
		l, r = r, l
	}
	if l.T.K == KNil {
		switch r.T.K {
		case KAny:
			return fmt.Sprintf("(= %s A_nil)", r.S)
		case KSlice:
			// nil slice approximated by the empty slice (assumption recorded)
			e.note("comparison of a slice with nil is modelled as len == 0")
			return fmt.Sprintf("(= %s 0)", e.seqLen(r))
		default:
			return fmt.Sprintf("(= %s 0)", r.S)
		}
	}
	if l.T.K == KAny && r.T.K != KAny {
		r = e.toAny(r, st)
	} else if r.T.K == KAny && l.T.K != KAny {
		l = e.toAny(l, st)
	}
	if l.T.K == KReal || r.T.K == KReal {
		l, r = e.toReal(l), e.toReal(r)
	}
	return fmt.Sprintf("(= %s %s)", l.S, r.S)
}

func (e *Exec) binop(op token.Token, l, r Term, c *Ctx, n ast.Node) Term {
	switch op {
	case token.EQL:
		return Term{e.eqTerm(l, r, c.st), tBool}
	case token.NEQ:
		return Term{"(not " + e.eqTerm(l, r, c.st) + ")", tBool}
	}
	if l.T.K == KStr && op == token.ADD {
		if e.vc.smtStr {
			return Term{fmt.Sprintf("(str.++ %s %s)", l.S, r.S), l.T}
		}
		return Term{fmt.Sprintf("(strcat %s %s)", l.S, r.S), l.T}
	}
	if l.T.K == KStr {
		e.vc.Decl("fun:strlt", fmt.Sprintf("(declare-fun strlt (%s %s) Bool)", e.vc.StrSort(), e.vc.StrSort()))
		switch op {
		case token.LSS:
			return Term{fmt.Sprintf("(strlt %s %s)", l.S, r.S), tBool}
		case token.GTR:
			return Term{fmt.Sprintf("(strlt %s %s)", r.S, l.S), tBool}
		case token.LEQ:
			return Term{fmt.Sprintf("(not (strlt %s %s))", r.S, l.S), tBool}
		case token.GEQ:
			return Term{fmt.Sprintf("(not (strlt %s %s))", l.S, r.S), tBool}
		}
	}
	rt := l.T
	if l.T.K == KReal || r.T.K == KReal {
		l, r = e.toReal(l), e.toReal(r)
		rt = l.T
		if rt.G == nil && r.T.G != nil {
			rt = r.T
		}
	} else if (l.T.G == nil || isUntypedLit(l)) && r.T.G != nil {
		rt = r.T
	}
	s := ""
	switch op {
	case token.ADD:
		s = fmt.Sprintf("(+ %s %s)", l.S, r.S)
	case token.SUB:
		s = fmt.Sprintf("(- %s %s)", l.S, r.S)
	case token.MUL:
		if fm, ok := e.floorMulPattern(l, r); ok {
			return Term{fm, rt}
		}
		s = fmt.Sprintf("(* %s %s)", l.S, r.S)
	case token.QUO:
		if !c.spec {
			zero := "0"
			if rt.K == KReal {
				zero = "0.0"
			}
			if rt.K != KReal {
				e.safetyAssert(c, "div-zero", fmt.Sprintf("(not (= %s %s))", r.S, zero), "", n)
			}
		}
		if rt.K == KReal {
			s = fmt.Sprintf("(/ %s %s)", l.S, r.S)
		} else {
			s = fmt.Sprintf("(godiv %s %s)", l.S, r.S)
		}
	case token.REM:
		if !c.spec {
			e.safetyAssert(c, "div-zero", fmt.Sprintf("(not (= %s 0))", r.S), "", n)
		}
		s = fmt.Sprintf("(gomod %s %s)", l.S, r.S)
	case token.LSS:
		return Term{fmt.Sprintf("(< %s %s)", l.S, r.S), tBool}
	case token.LEQ:
		return Term{fmt.Sprintf("(<= %s %s)", l.S, r.S), tBool}
	case token.GTR:
		return Term{fmt.Sprintf("(> %s %s)", l.S, r.S), tBool}
	case token.GEQ:
		return Term{fmt.Sprintf("(>= %s %s)", l.S, r.S), tBool}
	case token.AND, token.OR, token.XOR, token.SHL, token.SHR, token.AND_NOT:
		// bit operations: uninterpreted (deterministic) functions of the operands
		return e.uninterp("bitop!"+mangle(op.String()), []Term{l, r}, rt)
	default:
		e.errorf("%s: unsupported binary operator %s", e.curPos, op)
		return Term{e.vc.FreshConst("unk", e.Sort(rt)), rt}
	}
	return Term{s, rt}
}

func isUntypedLit(t Term) bool { return isIntLiteral(t.S) }

// ---------------------------------------------------------------- interfaces (Any)

func (e *Exec) boxFn(t *Type) (box, unbox string) {
	s := e.Sort(t)
	m := mangle(s)
	box, unbox = "box!"+m, "unbox!"+m
	e.vc.Decl("fun:"+box, fmt.Sprintf("(declare-fun %s (%s) Int)\n(declare-fun %s (Int) %s)", box, s, unbox, s))
	return
}

func (e *Exec) toAny(t Term, st *State) Term {
	switch t.T.K {
	case KAny:
		return t
	case KNil:
		return Term{"A_nil", tAny}
	case KUnit:
		return Term{"A_nil", tAny}
	}
	tag := e.tagOf(t.T)
	var payload string
	switch e.Sort(t.T) {
	case "Int":
		payload = t.S
	case "Bool":
		payload = fmt.Sprintf("(ite %s 1 0)", t.S)
	default:
		box, unbox := e.boxFn(t.T)
		n := t.S
		if hasBound(n) {
			// inside a quantifier: use the general axiom instead of an instance
			srt := e.Sort(t.T)
			e.vc.Decl("ax:"+box, fmt.Sprintf("(assert (forall ((x!b %s)) (! (= (%s (%s x!b)) x!b) :pattern ((%s x!b)))))", srt, unbox, box, box))
		} else {
			if !isAtom(n) {
				n = e.vc.Define("boxed", e.Sort(t.T), t.S)
			}
			e.vc.Fact(fmt.Sprintf("(= (%s (%s %s)) %s)", unbox, box, n, n))
		}
		payload = fmt.Sprintf("(%s %s)", box, n)
	}
	return Term{fmt.Sprintf("(A_box %d %s)", tag, payload), tAny}
}

// fromAny returns the value of dynamic type t held in the interface value and the condition that it is one.
func (e *Exec) fromAny(a Term, t *Type, st *State) (Term, string) {
	if a.T.K != KAny {
		return a, "true"
	}
	if t.K == KAny {
		// assertion to another interface type: succeeds iff non-nil and implements (uninterpreted)
		name := "impl!" + mangle(t.String())
		if t.G != nil {
			name = "impl!" + mangle(types.TypeString(t.G, nil))
		}
		e.vc.Decl("fun:"+name, fmt.Sprintf("(declare-fun %s (Int) Bool)", name))
		return a, fmt.Sprintf("(and ((_ is A_box) %s) (%s (a_tag %s)))", a.S, name, a.S)
	}
	tag := e.tagOf(t)
	ok := fmt.Sprintf("(and ((_ is A_box) %s) (= (a_tag %s) %d))", a.S, a.S, tag)
	var val string
	switch e.Sort(t) {
	case "Int":
		val = fmt.Sprintf("(a_val %s)", a.S)
	case "Bool":
		val = fmt.Sprintf("(not (= (a_val %s) 0))", a.S)
	default:
		_, unbox := e.boxFn(t)
		val = fmt.Sprintf("(%s (a_val %s))", unbox, a.S)
	}
	// a failed assertion yields the zero value
	z := e.Zero(t)
	return Term{fmt.Sprintf("(ite %s %s %s)", ok, val, z.S), t}, ok
}

// coerce converts a value to the static type of its destination (boxing into interfaces).
func (e *Exec) coerce(v Term, t *Type, st *State) Term {
	if t == nil {
		return v
	}
	if t.K == KAny && v.T.K != KAny {
		return e.toAny(v, st)
	}
	if v.T.K == KNil {
		z := e.Zero(t)
		return z
	}
	if t.K == KReal && v.T.K == KInt {
		return e.toReal(v)
	}
	if v.T.K == t.K && (v.T.G == nil || v.T.K == KInt || v.T.K == KStr || v.T.K == KBool || v.T.K == KReal) {
		return Term{v.S, t}
	}
	return v
}

// ---------------------------------------------------------------- sequences and maps

func (e *Exec) seqLen(s Term) string {
	return fmt.Sprintf("(len!%s %s)", e.Sort(s.T), s.S)
}

func (e *Exec) seqArr(s Term) string {
	return fmt.Sprintf("(arr!%s %s)", e.Sort(s.T), s.S)
}

func (e *Exec) seqGet(s Term, i string) Term {
	return Term{fmt.Sprintf("(select %s %s)", e.seqArr(s), i), s.T.Elem}
}

func (e *Exec) mkSeq(t *Type, arr, n string) Term {
	return Term{fmt.Sprintf("(mk!%s %s %s)", e.Sort(t), arr, n), t}
}

// mapKeyName: the heap class of a Go map type. Reference-typed elements of different Go types get different
// classes (Go's type system keeps such maps apart), everything else is classified by SMT sort.
func mapKeyName(e *Exec, t *Type) string {
	el := mangle(e.Sort(t.Elem))
	if t.Elem.K == KRef && t.Elem.Name != "" {
		el = "R." + mangle(shortStructName(t.Elem.Name))
	} else if t.Elem.K == KMap {
		el = "M." + mapKeyName(e, t.Elem)
	}
	return mangle(e.Sort(t.Key)) + "!" + el
}

func (e *Exec) mapDomArr(st *State, t *Type) Term {
	at := &Type{K: KGMap, Key: tInt, Elem: &Type{K: KGMap, Key: t.Key, Elem: tBool}}
	return e.get(st, "MD!"+mapKeyName(e, t), at)
}

func (e *Exec) mapValArr(st *State, t *Type) Term {
	at := &Type{K: KGMap, Key: tInt, Elem: &Type{K: KGMap, Key: t.Key, Elem: t.Elem}}
	return e.get(st, "MV!"+mapKeyName(e, t), at)
}

func (e *Exec) mapDom(st *State, m Term) string {
	return fmt.Sprintf("(select %s %s)", e.mapDomArr(st, m.T).S, m.S)
}

func (e *Exec) mapVal(st *State, m Term) string {
	return fmt.Sprintf("(select %s %s)", e.mapValArr(st, m.T).S, m.S)
}

func (e *Exec) cardFn(t *Type) string {
	ks := e.Sort(t.Key)
	n := "card!" + mangle(ks)
	e.vc.Decl("fun:"+n, fmt.Sprintf("(declare-fun %s ((Array %s Bool)) Int)", n, ks))
	return n
}

func (e *Exec) mapLen(st *State, m Term) string {
	card := e.cardFn(m.T)
	d := e.mapDom(st, m)
	e.vc.Fact(fmt.Sprintf("(>= (%s %s) 0)", card, d))
	return fmt.Sprintf("(%s %s)", card, d)
}

func (e *Exec) mapStore(c *Ctx, m Term, k, v Term, n ast.Node) {
	st := c.st
	if !c.spec {
		e.safetyAssert(c, "nil-map-write", fmt.Sprintf("(not (= %s 0))", m.S), "", n)
	}
	v = e.coerce(v, m.T.Elem, st)
	k = e.coerce(k, m.T.Key, st)
	da := e.mapDomArr(st, m.T)
	va := e.mapValArr(st, m.T)
	oldDom := e.vc.Define("dom", fmt.Sprintf("(Array %s Bool)", e.Sort(m.T.Key)), fmt.Sprintf("(select %s %s)", da.S, m.S))
	newDom := e.vc.Define("dom", fmt.Sprintf("(Array %s Bool)", e.Sort(m.T.Key)), fmt.Sprintf("(store %s %s true)", oldDom, k.S))
	card := e.cardFn(m.T)
	e.vc.Fact(fmt.Sprintf("(= (%s %s) (+ (%s %s) (ite (select %s %s) 0 1)))", card, newDom, card, oldDom, oldDom, k.S))
	e.vc.Fact(fmt.Sprintf("(>= (%s %s) 0)", card, oldDom))
	if isNumeric(m.T.Elem) && !hasBound(k.S) && !hasBound(v.S) {
		// sum of the values: new = old - (old value if present) + v
		oldVal := e.vc.Define("vals", fmt.Sprintf("(Array %s %s)", e.Sort(m.T.Key), e.Sort(m.T.Elem)), fmt.Sprintf("(select %s %s)", va.S, m.S))
		newVal := e.vc.Define("vals", fmt.Sprintf("(Array %s %s)", e.Sort(m.T.Key), e.Sort(m.T.Elem)), fmt.Sprintf("(store %s %s %s)", oldVal, k.S, v.S))
		e.vc.Fact(fmt.Sprintf("(= %s (+ (- %s (ite (select %s %s) (select %s %s) %s)) %s))", e.msumTerm(newDom, newVal, m.T), e.msumTerm(oldDom, oldVal, m.T), oldDom, k.S, oldVal, k.S, e.Zero(m.T.Elem).S, v.S))
	}
	e.set(st, "MD!"+mapKeyName(e, m.T), Term{fmt.Sprintf("(store %s %s %s)", da.S, m.S, newDom), da.T})
	e.set(st, "MV!"+mapKeyName(e, m.T), Term{fmt.Sprintf("(store %s %s (store (select %s %s) %s %s))", va.S, m.S, va.S, m.S, k.S, v.S), va.T})
}

func (e *Exec) mapDelete(c *Ctx, m Term, k Term) {
	st := c.st
	k = e.coerce(k, m.T.Key, st)
	da := e.mapDomArr(st, m.T)
	oldDom := e.vc.Define("dom", fmt.Sprintf("(Array %s Bool)", e.Sort(m.T.Key)), fmt.Sprintf("(select %s %s)", da.S, m.S))
	newDom := e.vc.Define("dom", fmt.Sprintf("(Array %s Bool)", e.Sort(m.T.Key)), fmt.Sprintf("(store %s %s false)", oldDom, k.S))
	card := e.cardFn(m.T)
	e.vc.Fact(fmt.Sprintf("(= (%s %s) (- (%s %s) (ite (select %s %s) 1 0)))", card, newDom, card, oldDom, oldDom, k.S))
	e.vc.Fact(fmt.Sprintf("(>= (%s %s) 0)", card, newDom))
	if isNumeric(m.T.Elem) && !hasBound(k.S) {
		va := e.mapValArr(st, m.T)
		vals := e.vc.Define("vals", fmt.Sprintf("(Array %s %s)", e.Sort(m.T.Key), e.Sort(m.T.Elem)), fmt.Sprintf("(select %s %s)", va.S, m.S))
		e.vc.Fact(fmt.Sprintf("(= %s (- %s (ite (select %s %s) (select %s %s) %s)))", e.msumTerm(newDom, vals, m.T), e.msumTerm(oldDom, vals, m.T), oldDom, k.S, vals, k.S, e.Zero(m.T.Elem).S))
	}
	// deleting from a nil map is a no-op in Go; with m == 0 the stored row is irrelevant
	e.set(st, "MD!"+mapKeyName(e, m.T), Term{fmt.Sprintf("(store %s %s %s)", da.S, m.S, newDom), da.T})
}

func (e *Exec) index(v *ast.IndexExpr, c *Ctx) Term {
	// generic instantiation f[T]
	if !c.spec {
		if tv, ok := c.fr.info.Types[v.X]; ok {
			if _, isSig := tv.Type.Underlying().(*types.Signature); isSig {
				return e.eval(v.X, c)
			}
		}
	}
	base := e.eval(v.X, c)
	idx := e.eval(v.Index, c)
	switch base.T.K {
	case KMap:
		idx = e.coerce(idx, base.T.Key, c.st)
		val := fmt.Sprintf("(select %s %s)", e.mapVal(c.st, base), idx.S)
		if c.spec {
			return Term{val, base.T.Elem}
		}
		in := fmt.Sprintf("(select %s %s)", e.mapDom(c.st, base), idx.S)
		return Term{fmt.Sprintf("(ite (and (not (= %s 0)) %s) %s %s)", base.S, in, val, e.Zero(base.T.Elem).S), base.T.Elem}
	case KGMap:
		idx = e.coerce(idx, base.T.Key, c.st)
		return Term{fmt.Sprintf("(select %s %s)", base.S, idx.S), base.T.Elem}
	case KSlice:
		if !c.spec {
			if !hasBound(base.S) {
				e.assume(c.st, fmt.Sprintf("(>= %s 0)", e.seqLen(base)))
			}
			e.safetyAssert(c, "index", fmt.Sprintf("(and (<= 0 %s) (< %s %s))", idx.S, idx.S, e.seqLen(base)), exprText(v), v)
		}
		return e.seqGet(base, idx.S)
	case KStr:
		e.vc.Decl("fun:strat", fmt.Sprintf("(declare-fun strat (%s Int) Int)", e.vc.StrSort()))
		return Term{fmt.Sprintf("(strat %s %s)", base.S, idx.S), tInt}
	}
	e.errorf("%s: unsupported index on %s", e.curPos, base.T)
	return Term{e.vc.FreshConst("unk", "Int"), tOpaque}
}

func (e *Exec) sliceExpr(v *ast.SliceExpr, c *Ctx) Term {
	base := e.eval(v.X, c)
	if base.T.K != KSlice {
		if base.T.K == KStr {
			e.vc.Decl("fun:substr", fmt.Sprintf("(declare-fun substr (%s Int Int) %s)", e.vc.StrSort(), e.vc.StrSort()))
			lo, hi := "0", ""
			if v.Low != nil {
				lo = e.eval(v.Low, c).S
			}
			if v.High != nil {
				hi = e.eval(v.High, c).S
			} else {
				hi = e.strLen(base)
			}
			if e.vc.smtStr {
				return Term{fmt.Sprintf("(str.substr %s %s (- %s %s))", base.S, lo, hi, lo), base.T}
			}
			return Term{fmt.Sprintf("(substr %s %s %s)", base.S, lo, hi), base.T}
		}
		e.errorf("%s: slicing of %s", e.curPos, base.T)
		return base
	}
	lo := "0"
	hi := e.seqLen(base)
	if v.Low != nil {
		lo = e.eval(v.Low, c).S
	}
	if v.High != nil {
		hi = e.eval(v.High, c).S
	}
	if !c.spec && !hasBound(base.S) {
		e.assume(c.st, fmt.Sprintf("(>= %s 0)", e.seqLen(base))) // the length of a slice is never negative
	}
	if !c.spec {
		e.safetyAssert(c, "slice-bounds", fmt.Sprintf("(and (<= 0 %s) (<= %s %s) (<= %s %s))", lo, lo, hi, hi, e.seqLen(base)), exprText(v), v)
	}
	r := e.seqSub(base, lo, hi)
	if !c.spec && v.Max == nil {
		bx := unparen(v.X)
		for {
			if ta, ok := bx.(*ast.TypeAssertExpr); ok {
				bx = unparen(ta.X)
				continue
			}
			break
		}
		o := &sliceOrigin{base: base, lo: lo, text: exprText(v), baseText: exprText(bx)}
		if bo := e.sliceOrig[base.S]; bo != nil {
			o = &sliceOrigin{base: bo.base, lo: fmt.Sprintf("(+ %s %s)", bo.lo, lo), text: bo.text, baseText: bo.baseText}
		}
		e.sliceOrig[r.S] = o
	}
	return r
}

// seqSub builds s[lo:hi] as a fresh sequence with pointwise facts.
func (e *Exec) seqSub(s Term, lo, hi string) Term {
	if lo == "0" {
		return e.mkSeq(s.T, e.seqArr(s), hi)
	}
	es := e.Sort(s.T.Elem)
	arr := e.vc.FreshConst("subarr", fmt.Sprintf("(Array Int %s)", es))
	sn := s.S
	if !isAtom(sn) {
		sn = e.vc.Define("seq", e.Sort(s.T), s.S)
	}
	lon := lo
	if !isAtom(lon) {
		lon = e.vc.Define("lo", "Int", lo)
	}
	e.vc.Fact(fmt.Sprintf("(forall ((j!i Int)) (! (= (select %s j!i) (select (arr!%s %s) (+ j!i %s))) :pattern ((select %s j!i))))", arr, e.Sort(s.T), sn, lon, arr))
	return e.mkSeq(s.T, arr, fmt.Sprintf("(- %s %s)", hi, lon))
}

// seqAppend: s ++ elems
func (e *Exec) seqAppendOne(s Term, v Term) Term {
	return e.mkSeq(s.T, fmt.Sprintf("(store %s %s %s)", e.seqArr(s), e.seqLen(s), v.S), fmt.Sprintf("(+ %s 1)", e.seqLen(s)))
}

func (e *Exec) seqConcat(a, b Term) Term {
	es := e.Sort(a.T.Elem)
	arr := e.vc.FreshConst("catarr", fmt.Sprintf("(Array Int %s)", es))
	an, bn := a.S, b.S
	if !isAtom(an) {
		an = e.vc.Define("seq", e.Sort(a.T), a.S)
	}
	if !isAtom(bn) {
		bn = e.vc.Define("seq", e.Sort(a.T), b.S)
	}
	ss := e.Sort(a.T)
	e.vc.Fact(fmt.Sprintf("(forall ((j!i Int)) (! (= (select %s j!i) (ite (< j!i (len!%s %s)) (select (arr!%s %s) j!i) (select (arr!%s %s) (- j!i (len!%s %s))))) :pattern ((select %s j!i))))",
		arr, ss, an, ss, an, ss, bn, ss, an, arr))
	return e.mkSeq(a.T, arr, fmt.Sprintf("(+ (len!%s %s) (len!%s %s))", ss, an, ss, bn))
}

func (e *Exec) strLen(s Term) string {
	if e.vc.smtStr {
		return fmt.Sprintf("(str.len %s)", s.S)
	}
	e.vc.Fact(fmt.Sprintf("(>= (strlen %s) 0)", s.S))
	return fmt.Sprintf("(strlen %s)", s.S)
}

// ---------------------------------------------------------------- composite literals / allocation

func (e *Exec) rtypeTag(what string) int {
	e.vc.Decl("fun:rtype", "(declare-fun rtype (Int) Int)")
	return e.vc.Tag("rt:" + what)
}

func (e *Exec) alloc(st *State, what string) string {
	r := e.vc.FreshConst("new_"+what, "Int")
	at := &Type{K: KGMap, Key: tInt, Elem: tBool}
	al := e.get(st, "$alloc", at)
	e.allocKinds[what] = true
	e.assume(st, fmt.Sprintf("(and (> %s 0) (not (select %s %s)) (= (rtype %s) %d))", r, al.S, r, r, e.rtypeTag(what)))
	e.set(st, "$alloc", Term{fmt.Sprintf("(store %s %s true)", al.S, r), at})
	return r
}

func (e *Exec) compositeLit(v *ast.CompositeLit, c *Ctx, addr bool) Term {
	var t *Type
	if c.spec {
		t = e.specType(v.Type, c)
	} else {
		t = e.prog.TypeOf(c.fr.info.Types[v].Type, c.fr.subst)
	}
	switch t.K {
	case KStruct:
		fields := e.fieldsOf(t)
		vals := make([]Term, len(fields))
		for i, f := range fields {
			vals[i] = e.Zero(f.Type)
		}
		for i, el := range v.Elts {
			if kv, ok := el.(*ast.KeyValueExpr); ok {
				name := kv.Key.(*ast.Ident).Name
				for j, f := range fields {
					if f.Name == name {
						vals[j] = e.coerce(e.eval(kv.Value, c), f.Type, c.st)
					}
				}
			} else if i < len(fields) {
				vals[i] = e.coerce(e.eval(el, c), fields[i].Type, c.st)
			}
		}
		if addr {
			r := e.alloc(c.st, shortStructName(t.Name))
			for i, f := range fields {
				h := e.heapArr(c.st, t.Name, f)
				e.set(c.st, heapKey(t.Name, f.Name), Term{fmt.Sprintf("(store %s %s %s)", h.S, r, vals[i].S), h.T})
				if f.Type.K == KOpaque {
					// the zero value of a synchronisation object (wait group count, atomic value): 0
					opk := "OP!" + t.Name + "!" + f.Name
					at := &Type{K: KGMap, Key: tInt, Elem: tInt}
					oa := e.get(c.st, opk, at)
					e.set(c.st, opk, Term{fmt.Sprintf("(store %s %s 0)", oa.S, r), at})
				}
			}
			return Term{r, &Type{K: KRef, Name: t.Name, St: t.St, Subst: t.Subst, G: ptrTo(t.G)}}
		}
		var args []string
		for _, x := range vals {
			args = append(args, x.S)
		}
		if len(args) == 0 {
			args = []string{"0"}
		}
		return Term{fmt.Sprintf("(mk!%s %s)", e.Sort(t), strings.Join(args, " ")), t}
	case KSlice:
		cur := e.Zero(t)
		for _, el := range v.Elts {
			val := e.coerce(e.eval(el, c), t.Elem, c.st)
			cur = e.seqAppendOne(cur, val)
		}
		return cur
	case KMap:
		r := e.alloc(c.st, "map")
		m := Term{r, t}
		da := e.mapDomArr(c.st, t)
		e.set(c.st, "MD!"+mapKeyName(e, t), Term{fmt.Sprintf("(store %s %s ((as const (Array %s Bool)) false))", da.S, r, e.Sort(t.Key)), da.T})
		card := e.cardFn(t)
		e.vc.Fact(fmt.Sprintf("(= (%s ((as const (Array %s Bool)) false)) 0)", card, e.Sort(t.Key)))
		for _, el := range v.Elts {
			kv := el.(*ast.KeyValueExpr)
			e.mapStore(c, m, e.eval(kv.Key, c), e.eval(kv.Value, c), v)
		}
		return m
	}
	if t.K == KOpaque || t.K == KInt {
		return e.Zero(t)
	}
	e.errorf("%s: unsupported composite literal of %s", e.curPos, t)
	return Term{e.vc.FreshConst("unk", e.Sort(t)), t}
}

func ptrTo(t types.Type) types.Type {
	if t == nil {
		return nil
	}
	return types.NewPointer(t)
}

// ---------------------------------------------------------------- assignment

func (e *Exec) assign(lhs ast.Expr, v Term, c *Ctx) {
	switch l := lhs.(type) {
	case *ast.ParenExpr:
		e.assign(l.X, v, c)
		return
	case *ast.Ident:
		if l.Name == "_" {
			return
		}
		if c.spec {
			// ghost assignment by name
			if k, ok := c.fr.names[l.Name]; ok {
				e.set(c.st, k, v)
				return
			}
			if g, ok := e.prog.ghostVars[l.Name]; ok {
				e.set(c.st, "GV!"+g.Name, e.coerce(v, g.Type, c.st))
				return
			}
			e.errorf("%s: ghost assignment to unknown %s", e.curPos, l.Name)
			return
		}
		obj := c.fr.info.Uses[l]
		if obj == nil {
			obj = c.fr.info.Defs[l]
		}
		if obj == nil {
			e.errorf("%s: assignment to unresolved %s", e.curPos, l.Name)
			return
		}
		t := e.prog.TypeOf(obj.Type(), c.fr.subst)
		e.set(c.st, e.keyOf(obj), e.coerce(v, t, c.st))
		e.escapedStore(c.st, e.keyOf(obj), e.coerce(v, t, c.st))
		return
	case *ast.SelectorExpr:
		base := e.eval(l.X, c)
		path := e.findField(base.T, l.Sel.Name, 0)
		if path == nil {
			e.errorf("%s: assignment to unknown field %s", e.curPos, exprText(l))
			return
		}
		e.assignPath(l.X, base, path, v, c, l)
		return
	case *ast.IndexExpr:
		base := e.eval(l.X, c)
		idx := e.eval(l.Index, c)
		switch base.T.K {
		case KMap:
			e.guardWriteThrough(l.X, c)
			e.mapStore(c, base, idx, v, l)
			return
		case KGMap:
			nv := Term{fmt.Sprintf("(store %s %s %s)", base.S, e.coerce(idx, base.T.Key, c.st).S, e.coerce(v, base.T.Elem, c.st).S), base.T}
			e.assign(l.X, nv, c)
			return
		case KSlice:
			if !c.spec {
				e.safetyAssert(c, "index", fmt.Sprintf("(and (<= 0 %s) (< %s %s))", idx.S, idx.S, e.seqLen(base)), exprText(l), l)
				e.note("write through a slice element (%s) uses value semantics: slices are assumed unaliased", exprText(l))
			}
			nv := e.mkSeq(base.T, fmt.Sprintf("(store %s %s %s)", e.seqArr(base), idx.S, e.coerce(v, base.T.Elem, c.st).S), e.seqLen(base))
			e.assign(l.X, nv, c)
			return
		}
	case *ast.StarExpr:
		p := e.eval(l.X, c)
		if p.T.K == KRef && p.T.Name == "" {
			e.safetyAssert(c, "nil-deref", fmt.Sprintf("(not (= %s 0))", p.S), "", l)
			at := &Type{K: KGMap, Key: tInt, Elem: p.T.Elem}
			key := "P!" + mangle(e.Sort(p.T.Elem))
			h := e.get(c.st, key, at)
			e.set(c.st, key, Term{fmt.Sprintf("(store %s %s %s)", h.S, p.S, e.coerce(v, p.T.Elem, c.st).S), at})
			return
		}
		if p.T.K == KRef && p.T.Name != "" && v.T.K == KStruct {
			e.safetyAssert(c, "nil-deref", fmt.Sprintf("(not (= %s 0))", p.S), "", l)
			for _, f := range e.fieldsOf(v.T) {
				h := e.heapArr(c.st, p.T.Name, f)
				e.set(c.st, heapKey(p.T.Name, f.Name), Term{fmt.Sprintf("(store %s %s (%s!%s %s))", h.S, p.S, e.Sort(v.T), f.Name, v.S), h.T})
			}
			return
		}
	}
	e.errorf("%s: unsupported assignment target %s", e.curPos, exprText(lhs))
}

// assignPath writes v into base.path..., where base is the value of baseExpr.
func (e *Exec) assignPath(baseExpr ast.Expr, base Term, path []fieldInfo, v Term, c *Ctx, n ast.Node) {
	f := path[0]
	if len(path) > 1 {
		inner := e.readField(base, f, c, n)
		if inner.T.K == KRef {
			e.assignPath(nil, inner, path[1:], v, c, n)
			return
		}
		// nested struct value: rebuild
		nv := e.updateStruct(inner, path[1:], v, c, n)
		e.assignPath(baseExpr, base, path[:1], nv, c, n)
		return
	}
	v = e.coerce(v, f.Type, c.st)
	switch base.T.K {
	case KRef:
		if !c.spec {
			e.safetyAssert(c, "nil-deref", fmt.Sprintf("(not (= %s 0))", base.S), "", n)
			e.guardedBy(c, base, f.Name, n)
			e.guardWrite(c, base, f.Name, n)
		}
		h := e.heapArr(c.st, base.T.Name, f)
		e.set(c.st, heapKey(base.T.Name, f.Name), Term{fmt.Sprintf("(store %s %s %s)", h.S, base.S, v.S), h.T})
	case KStruct:
		nv := e.updateStruct(base, path, v, c, n)
		if baseExpr == nil {
			e.errorf("%s: cannot write back struct value", e.curPos)
			return
		}
		e.assign(baseExpr, nv, c)
	default:
		e.errorf("%s: field write on %s", e.curPos, base.T)
	}
}

func (e *Exec) updateStruct(base Term, path []fieldInfo, v Term, c *Ctx, n ast.Node) Term {
	fields := e.fieldsOf(base.T)
	s := e.Sort(base.T)
	var args []string
	bn := base.S
	if !isAtom(bn) {
		bn = e.vc.Define("sv", s, base.S)
	}
	for _, f := range fields {
		cur := fmt.Sprintf("(%s!%s %s)", s, f.Name, bn)
		if f.Name == path[0].Name {
			if len(path) == 1 {
				cur = e.coerce(v, f.Type, c.st).S
			} else {
				cur = e.updateStruct(Term{cur, f.Type}, path[1:], v, c, n).S
			}
		}
		args = append(args, cur)
	}
	return Term{fmt.Sprintf("(mk!%s %s)", s, strings.Join(args, " ")), base.T}
}

// ---------------------------------------------------------------- multi-value expressions

func (e *Exec) evalMulti(x ast.Expr, c *Ctx, n int) []Term {
	switch v := x.(type) {
	case *ast.ParenExpr:
		return e.evalMulti(v.X, c, n)
	case *ast.CallExpr:
		r := e.call(v, c, n)
		for len(r) < n {
			r = append(r, Term{e.vc.FreshConst("unk", "Int"), tOpaque})
		}
		return r
	case *ast.IndexExpr:
		base := e.eval(v.X, c)
		idx := e.coerce(e.eval(v.Index, c), base.T.Key, c.st)
		if base.T.K == KMap {
			in := fmt.Sprintf("(and (not (= %s 0)) (select %s %s))", base.S, e.mapDom(c.st, base), idx.S)
			inN := e.vc.Define("in", "Bool", in)
			val := fmt.Sprintf("(ite %s (select %s %s) %s)", inN, e.mapVal(c.st, base), idx.S, e.Zero(base.T.Elem).S)
			return []Term{{val, base.T.Elem}, {inN, tBool}}
		}
	case *ast.TypeAssertExpr:
		sv := e.eval(v.X, c)
		t := e.prog.TypeOf(c.fr.info.Types[v.Type].Type, c.fr.subst)
		val, ok := e.fromAny(sv, t, c.st)
		return []Term{val, {ok, tBool}}
	case *ast.UnaryExpr:
		if v.Op == token.ARROW {
			val := e.unary(v, c)
			return []Term{val, {e.vc.FreshConst("chok", "Bool"), tBool}}
		}
	}
	e.errorf("%s: unsupported multi-value expression %s", e.curPos, exprText(x))
	out := make([]Term, n)
	for i := range out {
		out[i] = Term{e.vc.FreshConst("unk", "Int"), tOpaque}
	}
	return out
}

// ---------------------------------------------------------------- safety obligations, model variables

func (e *Exec) safetyAssert(c *Ctx, kind, phi, text string, n ast.Node) {
	if c.spec || !e.safety {
		return
	}
	if e.topCon != nil {
		if e.topCon.NoSafety {
			// still assume the condition (so later reasoning is not weakened artificially)
			return
		}
	}
	if phi == "true" {
		return
	}
	txt := text
	if txt == "" && n != nil {
		if x, ok := n.(ast.Expr); ok {
			txt = exprText(x)
		}
	}
	name := fmt.Sprintf("%s#safe[%s:%s]", e.fnName, kind, normText(txt))
	e.assert(c.st, name, "safety", phi, kind+" "+txt, e.prog.pos(n), e.modelVars(c.st, c.fr))
}

func normText(s string) string {
	s = strings.Join(strings.Fields(s), "")
	if len(s) > 60 {
		s = s[:60]
	}
	return s
}

// modelVars lists the entry values of the function under verification (parameters and receiver).
func (e *Exec) modelVars(st *State, fr *Frame) map[string]string {
	for fr != nil && !fr.top {
		fr = fr.parent
	}
	if fr == nil || fr.entry == nil {
		return nil
	}
	m := map[string]string{}
	for name, k := range fr.names {
		if strings.HasPrefix(name, "$") {
			continue
		}
		if v, ok := fr.entry.vars[k]; ok {
			m[name] = v.S
		}
	}
	return m
}

// finalGlobal: a package-level variable with an initialiser that is never assigned (nor has its
// address taken) in its package is evaluated from its initialiser (effectively a constant).
func (e *Exec) finalGlobal(v *types.Var, c *Ctx) (Term, bool) {
	key := e.keyOf(v)
	if t, ok := e.globalVal[key]; ok {
		return t, t.T != nil
	}
	e.globalVal[key] = Term{}
	pk := e.prog.pkgs[v.Pkg().Path()]
	if pk == nil || pk.TypesInfo == nil || !strings.HasPrefix(pk.PkgPath, "lunar/") {
		return Term{}, false
	}
	var init ast.Expr
	assigned := false
	for _, f := range pk.Syntax {
		ast.Inspect(f, func(n ast.Node) bool {
			switch x := n.(type) {
			case *ast.ValueSpec:
				for i, nm := range x.Names {
					if pk.TypesInfo.Defs[nm] == v && len(x.Values) == len(x.Names) {
						init = x.Values[i]
					}
				}
			case *ast.AssignStmt:
				for _, l := range x.Lhs {
					if id, ok := unparen(l).(*ast.Ident); ok && pk.TypesInfo.Uses[id] == v {
						assigned = true
					}
				}
			case *ast.IncDecStmt:
				if id, ok := unparen(x.X).(*ast.Ident); ok && pk.TypesInfo.Uses[id] == v {
					assigned = true
				}
			case *ast.UnaryExpr:
				if x.Op == token.AND {
					if id, ok := unparen(x.X).(*ast.Ident); ok && pk.TypesInfo.Uses[id] == v {
						assigned = true
					}
				}
			}
			return true
		})
	}
	if init == nil || assigned {
		return Term{}, false
	}
	switch init.(type) {
	case *ast.CallExpr, *ast.BasicLit, *ast.Ident, *ast.SelectorExpr, *ast.BinaryExpr, *ast.UnaryExpr:
	default:
		return Term{}, false
	}
	fr := &Frame{info: pk.TypesInfo, pkg: pk, names: map[string]string{}, ntypes: map[string]*Type{}, closures: map[string]*ast.FuncLit{}}
	scratch := &State{pc: "true", vars: map[string]Term{}}
	nerr := len(e.errors)
	val := e.eval(init, &Ctx{st: scratch, fr: fr})
	if len(e.errors) > nerr || scratch.pc != "true" {
		e.errors = e.errors[:nerr]
		return Term{}, false
	}
	t := e.prog.TypeOf(v.Type(), nil)
	val = e.coerce(val, t, scratch)
	n := Term{e.vc.Define("global_"+v.Name(), e.Sort(val.T), val.S), val.T}
	e.globalVal[key] = n
	e.note("package variable %s.%s is never assigned: evaluated from its initialiser", v.Pkg().Name(), v.Name())
	return n, true
}

// floorMulPattern recognises (a / b) * b (and b * (a / b)) on integers and replaces the non-linear term
// by floormul(a, b) with its defining facts: for a >= 0, b > 0: fm <= a < fm + b and fm is a multiple of b.
func (e *Exec) floorMulPattern(l, r Term) (string, bool) {
	try := func(d, b Term) (string, bool) {
		pre := "(godiv "
		if !strings.HasPrefix(d.S, pre) || !strings.HasSuffix(d.S, " "+b.S+")") {
			return "", false
		}
		a := strings.TrimSuffix(strings.TrimPrefix(d.S, pre), " "+b.S+")")
		return e.floorMul(a, b.S), true
	}
	if l.T.K != KInt || r.T.K != KInt {
		return "", false
	}
	if s, ok := try(l, r); ok {
		return s, true
	}
	return try(r, l)
}

func (e *Exec) floorMul(a, b string) string {
	e.vc.Decl("fun:floormul", "(declare-fun floormul (Int Int) Int)")
	e.vc.Decl("fun:gf!multipleOf!Int_Int", "(declare-fun gf!multipleOf!Int_Int (Int Int) Bool)")
	an, bn := a, b
	if hasBound(a) || hasBound(b) {
		e.vc.Decl("ax:floormul", "(assert (forall ((a!b Int) (b!b Int)) (! (=> (and (>= a!b 0) (> b!b 0)) (and (<= (floormul a!b b!b) a!b) (< a!b (+ (floormul a!b b!b) b!b)) (gf!multipleOf!Int_Int (floormul a!b b!b) b!b))) :pattern ((floormul a!b b!b)))))")
		return fmt.Sprintf("(floormul %s %s)", a, b)
	}
	if !isAtom(an) {
		an = e.vc.Define("fm_a", "Int", a)
	}
	if !isAtom(bn) {
		bn = e.vc.Define("fm_b", "Int", b)
	}
	fm := fmt.Sprintf("(floormul %s %s)", an, bn)
	e.vc.Fact(fmt.Sprintf("(=> (and (>= %s 0) (> %s 0)) (and (<= %s %s) (< %s (+ %s %s)) (gf!multipleOf!Int_Int %s %s)))", an, bn, fm, an, an, fm, bn, fm, bn))
	e.externs["arithmetic fact: (a/b)*b for a >= 0, b > 0 is the largest multiple of b not above a (non-linear term replaced by floormul + multipleOf)"] = true
	return fm
}

// hasBound: the term mentions a variable bound by an enclosing spec quantifier (named x!qN).
func hasBound(s string) bool { return strings.Contains(s, "!q") }

// msumTerm: the sum of the values of a (finite) map over a key set, an uninterpreted function of (set, values) whose
// defining equations are instantiated where sets and values are updated (map stores/deletes, the seen set of a range loop).
func (e *Exec) msumFn(t *Type) string {
	ks, vs := e.Sort(t.Key), e.Sort(t.Elem)
	n := "msum!" + mangle(ks) + "!" + mangle(vs)
	e.vc.Decl("fun:"+n, fmt.Sprintf("(declare-fun %s ((Array %s Bool) (Array %s %s)) %s)\n(assert (forall ((v!m (Array %s %s))) (! (= (%s ((as const (Array %s Bool)) false) v!m) %s) :pattern ((%s ((as const (Array %s Bool)) false) v!m)))))",
		n, ks, ks, vs, vs, ks, vs, n, ks, e.Zero(t.Elem).S, n, ks))
	return n
}

func (e *Exec) msumTerm(set, vals string, t *Type) string {
	return fmt.Sprintf("(%s %s %s)", e.msumFn(t), set, vals)
}

func isNumeric(t *Type) bool { return t.K == KInt || t.K == KReal }
