package main

// Rename tolerance.
//
// Contracts name parameters and body locals of the functions they are attached to. A change that only renames such a
// variable leaves the property as it was, but the contract would no longer bind. /verif/bindings/<prop>.json records, for
// the tree the contracts were written against, the variables of every function under contract in declaration order
// (receiver, parameters, results, then body definitions in source order) with their types. When a name a contract
// mentions is no longer declared in its function, and the function still declares the same number of variables with the
// same type at the recorded position, the contract's identifier is re-pointed to the variable now declared at that
// position. Anything else (a different number of variables, another type at that position) is left alone and is
// reported as a contract that does not bind.

import (
	"encoding/json"
	"fmt"
	"go/ast"
	"go/types"
	"os"
	"path/filepath"
	"reflect"
	"sort"
	"strings"
)

type bindEntry struct {
	Name string `json:"name"`
	Type string `json:"type"`
}

// Loops of the functions under contract (header text, in source order) and the functions their packages declared when
// the contracts were written: kept in the same file under the pseudo-functions "$loops:<func>" and "$functions:<pkg>".
func loopNodesOf(body *ast.BlockStmt) []ast.Node {
	var out []ast.Node
	if body == nil {
		return nil
	}
	ast.Inspect(body, func(x ast.Node) bool {
		switch x.(type) {
		case *ast.ForStmt, *ast.RangeStmt:
			out = append(out, x)
		case *ast.FuncLit:
			return false
		}
		return true
	})
	return out
}

func loopPrint(n ast.Node) string {
	switch l := n.(type) {
	case *ast.RangeStmt:
		k, v := "_", "_"
		if l.Key != nil {
			k = exprText(l.Key)
		}
		if l.Value != nil {
			v = exprText(l.Value)
		}
		return "range " + k + "," + v + " " + exprText(l.X)
	case *ast.ForStmt:
		c := ""
		if l.Cond != nil {
			c = exprText(l.Cond)
		}
		return fmt.Sprintf("for init=%v cond=%s post=%v", l.Init != nil, c, l.Post != nil)
	}
	return "?"
}

func (p *Program) localsOf(fi *FuncInfo) []bindEntry {
	if fi == nil || fi.Decl == nil || fi.Pkg == nil || fi.Pkg.TypesInfo == nil {
		return nil
	}
	info := fi.Pkg.TypesInfo
	qual := func(pk *types.Package) string { return pk.Name() }
	var out []bindEntry
	add := func(id *ast.Ident) {
		if id == nil || id.Name == "_" {
			return
		}
		if v, ok := info.Defs[id].(*types.Var); ok && v != nil && !v.IsField() {
			out = append(out, bindEntry{id.Name, types.TypeString(v.Type(), qual)})
		}
	}
	fields := func(fl *ast.FieldList) {
		if fl == nil {
			return
		}
		for _, f := range fl.List {
			for _, n := range f.Names {
				add(n)
			}
		}
	}
	fields(fi.Decl.Recv)
	fields(fi.Decl.Type.Params)
	fields(fi.Decl.Type.Results)
	if fi.Decl.Body != nil {
		ast.Inspect(fi.Decl.Body, func(n ast.Node) bool {
			if id, ok := n.(*ast.Ident); ok {
				add(id)
			}
			return true
		})
	}
	return out
}

func bindingsPath(verifDir, prop string) string {
	return filepath.Join(verifDir, "bindings", prop+".json")
}

// collectBindings: the variable lists of the functions whose contracts carry this property.
func (p *Program) collectBindings(prop string, into map[string][]bindEntry) {
	for _, ct := range p.allCon {
		if ct.Kind == "extern" {
			// a trusted contract on a function of the repository follows a rename of that function too
			if fi := p.findFuncAnyPkg(ct); fi != nil {
				into["$extern:"+ct.PkgPath+"."+ct.Key] = p.localsOf(fi)
			}
			continue
		}
		if ct.Kind != "func" || !hasProp(ct.Props, prop) {
			continue
		}
		fi := p.findFunc(ct)
		if fi == nil {
			continue
		}
		into[ct.PkgPath+"."+ct.Key] = p.localsOf(fi)
		var lp []bindEntry
		for _, n := range loopNodesOf(fi.Decl.Body) {
			lp = append(lp, bindEntry{loopPrint(n), "loop"})
		}
		if len(lp) > 0 {
			into["$loops:"+ct.PkgPath+"."+ct.Key] = lp
		}
		fk := "$functions:" + ct.PkgPath
		if _, done := into[fk]; !done {
			var fs []bindEntry
			for _, f := range p.funcs {
				if f.Pkg != nil && f.Pkg.PkgPath == ct.PkgPath && f.Decl != nil {
					keys := contractKeys(f.Obj)
					fs = append(fs, bindEntry{keys[len(keys)-1], "func"})
				}
			}
			sort.Slice(fs, func(i, j int) bool { return fs[i].Name < fs[j].Name })
			into[fk] = fs
		}
	}
}

// applyLoopMoves: a function under contract has fewer loops than when its contract was written, every loop it still has
// is one of the recorded ones (same header, same order), and the missing ones are exactly the loops of the NEW
// contract-less helpers of its package that it now calls (in call order): the contract's `loop N` clauses follow the
// loops to where they are now. Anything else is left alone.
func (p *Program) applyLoopMoves(prop string, recorded map[string][]bindEntry) []string {
	var notes []string
	if recorded == nil {
		return nil
	}
	for _, ct := range p.allCon {
		if ct.Kind != "func" || !hasProp(ct.Props, prop) {
			continue
		}
		base, ok := recorded["$loops:"+ct.PkgPath+"."+ct.Key]
		if !ok {
			continue
		}
		fi := p.findFunc(ct)
		if fi == nil || fi.Decl == nil || fi.Decl.Body == nil {
			continue
		}
		own := loopNodesOf(fi.Decl.Body)
		if len(own) >= len(base) {
			continue
		}
		// align the remaining own loops with the recorded ones (greedy, order preserving)
		matched := map[int]int{} // own index -> recorded index
		bi := 0
		okAlign := true
		for oi, n := range own {
			fp := loopPrint(n)
			for bi < len(base) && base[bi].Name != fp {
				bi++
			}
			if bi >= len(base) {
				okAlign = false
				break
			}
			matched[oi] = bi
			bi++
		}
		if !okAlign {
			continue
		}
		used := map[int]bool{}
		for _, b := range matched {
			used[b] = true
		}
		var missing []int
		for i := range base {
			if !used[i] {
				missing = append(missing, i)
			}
		}
		// loops of new contract-less helpers called by the function, in call order
		known := map[string]bool{}
		for _, f := range recorded["$functions:"+ct.PkgPath] {
			known[f.Name] = true
		}
		var cands []ast.Node
		seenCallee := map[*FuncInfo]bool{}
		info := fi.Pkg.TypesInfo
		ast.Inspect(fi.Decl.Body, func(x ast.Node) bool {
			call, ok := x.(*ast.CallExpr)
			if !ok {
				return true
			}
			var fn *types.Func
			switch f := unparen(call.Fun).(type) {
			case *ast.Ident:
				fn, _ = info.Uses[f].(*types.Func)
			case *ast.SelectorExpr:
				fn, _ = info.Uses[f.Sel].(*types.Func)
			}
			if fn == nil || fn.Pkg() == nil || fn.Pkg().Path() != ct.PkgPath {
				return true
			}
			cf := p.funcs[fullName(fn)]
			if cf == nil || cf.Decl == nil || cf.Decl.Body == nil || seenCallee[cf] || p.contractFor(fn) != nil || p.isPure(fn) {
				return true
			}
			keys := contractKeys(cf.Obj)
			if known[keys[len(keys)-1]] {
				return true
			}
			seenCallee[cf] = true
			cands = append(cands, loopNodesOf(cf.Decl.Body)...)
			return true
		})
		if len(cands) != len(missing) || len(missing) == 0 {
			continue
		}
		ct.LoopRemap = map[ast.Node]int{}
		for oi, n := range own {
			ct.LoopRemap[n] = matched[oi] + 1
		}
		for i, n := range cands {
			ct.LoopRemap[n] = missing[i] + 1
			notes = append(notes, fmt.Sprintf("rename tolerance: %s.%s: loop %d of the contract is now in a new helper called by the function (%s)", ct.PkgName, ct.Key, missing[i]+1, loopPrint(n)))
		}
	}
	sort.Strings(notes)
	return notes
}

func writeBindings(verifDir, prop string, b map[string][]bindEntry) error {
	_ = os.MkdirAll(filepath.Join(verifDir, "bindings"), 0o755)
	keys := make([]string, 0, len(b))
	for k := range b {
		keys = append(keys, k)
	}
	sort.Strings(keys)
	ordered := make([]struct {
		Func string      `json:"func"`
		Vars []bindEntry `json:"vars"`
	}, 0, len(keys))
	for _, k := range keys {
		ordered = append(ordered, struct {
			Func string      `json:"func"`
			Vars []bindEntry `json:"vars"`
		}{k, b[k]})
	}
	data, _ := json.MarshalIndent(ordered, "", " ")
	return os.WriteFile(bindingsPath(verifDir, prop), data, 0o644)
}

func readBindings(verifDir, prop string) map[string][]bindEntry {
	data, err := os.ReadFile(bindingsPath(verifDir, prop))
	if err != nil {
		return nil
	}
	var ordered []struct {
		Func string      `json:"func"`
		Vars []bindEntry `json:"vars"`
	}
	if json.Unmarshal(data, &ordered) != nil {
		return nil
	}
	out := map[string][]bindEntry{}
	for _, o := range ordered {
		out[o.Func] = o.Vars
	}
	return out
}

// applyFuncRenames re-targets a contract whose function no longer exists under its name when exactly one function of the
// same package and receiver type that was not there before declares variables of the recorded types, in the recorded order
// (a private helper that was renamed, possibly together with some of its locals). Returns human-readable notes.
func (p *Program) applyFuncRenames(prop string, recorded map[string][]bindEntry) []string {
	var notes []string
	if recorded == nil {
		return nil
	}
	for _, ct := range p.allCon {
		if ct.Kind != "func" || !hasProp(ct.Props, prop) || p.findFunc(ct) != nil {
			continue
		}
		if fi, lit := p.findFuncLit(ct); fi != nil && lit != nil {
			continue
		}
		old, ok := recorded[ct.PkgPath+"."+ct.Key]
		if !ok {
			continue
		}
		prefix := ""
		if i := lastDot(ct.Key); i >= 0 {
			prefix = ct.Key[:i+1]
		}
		var cands []*FuncInfo
		for _, fi := range p.funcs {
			if fi.Pkg == nil || fi.Pkg.PkgPath != ct.PkgPath || fi.Decl == nil {
				continue
			}
			keys := contractKeys(fi.Obj)
			short := keys[len(keys)-1]
			fprefix := ""
			if i := lastDot(short); i >= 0 {
				fprefix = short[:i+1]
			}
			if fprefix != prefix {
				continue
			}
			if _, was := recorded[ct.PkgPath+"."+short]; was {
				continue // existed (under contract) before
			}
			taken := false
			for _, k := range keys {
				if c, ok := p.contracts[k]; ok && c.PkgPath == ct.PkgPath {
					taken = true
				}
			}
			if taken {
				continue
			}
			cur := p.localsOf(fi)
			if len(cur) != len(old) {
				continue
			}
			same := true
			for i := range cur {
				if cur[i].Type != old[i].Type {
					same = false
					break
				}
			}
			if same {
				cands = append(cands, fi)
			}
		}
		if len(cands) != 1 {
			continue
		}
		keys := contractKeys(cands[0].Obj)
		newKey := keys[len(keys)-1]
		for _, k := range []string{ct.Key, ct.PkgName + "." + ct.Key} {
			if p.contracts[k] == ct {
				delete(p.contracts, k)
			}
		}
		notes = append(notes, fmt.Sprintf("rename tolerance: %s.%s: the function is now called %s (the only new function of the package with the same receiver and the same variables by type and position)", ct.PkgName, ct.Key, newKey))
		recorded[ct.PkgPath+"."+newKey] = old
		ct.Key = newKey
		for _, k := range []string{ct.Key, ct.PkgName + "." + ct.Key} {
			if _, dup := p.contracts[k]; !dup {
				p.contracts[k] = ct
			}
		}
	}
	// trusted (extern) contracts that named a function of the repository which is gone under that name
	for _, ct := range p.allCon {
		if ct.Kind != "extern" {
			continue
		}
		old, ok := recorded["$extern:"+ct.PkgPath+"."+ct.Key]
		if !ok || p.findFuncAnyPkg(ct) != nil {
			continue
		}
		name := ct.Key
		prefix := ""
		if i := lastDot(ct.Key); i >= 0 {
			prefix, name = ct.Key[:i+1], ct.Key[i+1:]
		}
		_ = name
		var cands []*FuncInfo
		for _, fi := range p.funcs {
			if fi.Pkg == nil || fi.Decl == nil {
				continue
			}
			keys := contractKeys(fi.Obj)
			short := keys[len(keys)-1]
			fprefix := ""
			if i := lastDot(short); i >= 0 {
				fprefix = short[:i+1]
			}
			if fprefix != prefix {
				continue
			}
			if _, was := recorded["$fn:"+fi.Pkg.PkgPath+"."+short]; was {
				continue
			}
			known := false
			for _, f := range recorded["$functions:"+fi.Pkg.PkgPath] {
				if f.Name == short {
					known = true
				}
			}
			if known || len(recorded["$functions:"+fi.Pkg.PkgPath]) == 0 {
				continue // existed before, or nothing is known about that package's functions
			}
			cur := p.localsOf(fi)
			if len(cur) != len(old) {
				continue
			}
			same := true
			for i := range cur {
				if cur[i].Type != old[i].Type {
					same = false
					break
				}
			}
			if same {
				cands = append(cands, fi)
			}
		}
		if len(cands) != 1 {
			continue
		}
		keys := contractKeys(cands[0].Obj)
		newKey := keys[len(keys)-1]
		for _, k := range []string{ct.Key, ct.PkgName + "." + ct.Key} {
			if p.contracts[k] == ct {
				delete(p.contracts, k)
			}
		}
		notes = append(notes, fmt.Sprintf("rename tolerance: the trusted contract on %s (written in %s) follows the function, now called %s", ct.Key, ct.PkgName, newKey))
		ct.Key = newKey
		ct.Target = newKey
		for _, k := range []string{ct.Key, ct.PkgName + "." + ct.Key} {
			if _, dup := p.contracts[k]; !dup {
				p.contracts[k] = ct
			}
		}
	}
	sort.Strings(notes)
	return notes
}

// findFuncAnyPkg: the repository function an extern contract names (the contract may be written in a caller's package).
func (p *Program) findFuncAnyPkg(ct *Contract) *FuncInfo {
	var found *FuncInfo
	n := 0
	for _, fi := range p.funcs {
		if fi.Decl == nil || fi.Pkg == nil || !strings.HasPrefix(fi.Pkg.PkgPath, "lunar/") {
			continue
		}
		for _, k := range contractKeys(fi.Obj) {
			if k == ct.Key {
				found = fi
				n++
				break
			}
		}
	}
	if n == 1 {
		return found
	}
	return nil
}

func lastDot(s string) int {
	for i := len(s) - 1; i >= 0; i-- {
		if s[i] == '.' {
			return i
		}
	}
	return -1
}

// applyRenames re-points contract identifiers whose variable was renamed. Returns human-readable notes.
func (p *Program) applyRenames(prop string, recorded map[string][]bindEntry) []string {
	var notes []string
	if recorded == nil {
		return nil
	}
	for _, ct := range p.allCon {
		if ct.Kind != "func" || !hasProp(ct.Props, prop) {
			continue
		}
		old, ok := recorded[ct.PkgPath+"."+ct.Key]
		if !ok {
			continue
		}
		fi := p.findFunc(ct)
		if fi == nil {
			continue
		}
		cur := p.localsOf(fi)
		if len(cur) != len(old) {
			continue
		}
		curNames := map[string]bool{}
		for _, c := range cur {
			curNames[c.Name] = true
		}
		alias := map[string]string{}
		okAll := true
		for i := range old {
			if old[i].Name == cur[i].Name {
				continue
			}
			if curNames[old[i].Name] {
				// the old name still exists elsewhere in the function: not a plain rename
				continue
			}
			if old[i].Type != cur[i].Type {
				okAll = false
				break
			}
			if prev, dup := alias[old[i].Name]; dup && prev != cur[i].Name {
				okAll = false
				break
			}
			alias[old[i].Name] = cur[i].Name
		}
		if !okAll || len(alias) == 0 {
			continue
		}
		if renameInContract(ct, alias) {
			for o, n := range alias {
				notes = append(notes, fmt.Sprintf("rename tolerance: %s.%s: the contract's %q is the variable now called %q (same position and type)", ct.PkgName, ct.Key, o, n))
			}
		}
	}
	sort.Strings(notes)
	return notes
}

// renameInContract rewrites identifiers in every expression of the contract. Names bound by a quantifier in a clause are
// left alone in that clause.
func renameInContract(ct *Contract, alias map[string]string) bool {
	changed := false
	var visit func(v reflect.Value)
	renameExpr := func(x ast.Expr) {
		if x == nil {
			return
		}
		bound := map[string]int{}
		var walk func(n ast.Node)
		walk = func(n ast.Node) {
			switch v := n.(type) {
			case nil:
				return
			case *ast.Ident:
				if nn, ok := alias[v.Name]; ok && bound[v.Name] == 0 {
					v.Name = nn
					changed = true
				}
			case *ast.SelectorExpr:
				walk(v.X) // the selected field or method keeps its name
			case *ast.CallExpr:
				if id, ok := v.Fun.(*ast.Ident); ok && (id.Name == "forall" || id.Name == "exists") && len(v.Args) >= 3 {
					if bv, ok := v.Args[0].(*ast.Ident); ok {
						for _, a := range v.Args[1 : len(v.Args)-1] {
							walk(a)
						}
						bound[bv.Name]++
						walk(v.Args[len(v.Args)-1])
						bound[bv.Name]--
						return
					}
				}
				if _, plain := v.Fun.(*ast.Ident); !plain {
					walk(v.Fun) // a bare name in call position is a spec builtin or a function (old(...), len(...)), never a renamed variable
				}
				if id, ok := v.Fun.(*ast.Ident); ok && id.Name == "typeis" && len(v.Args) == 2 {
					walk(v.Args[0]) // the second argument is a type: a local that happens to share the type's name is not meant
					return
				}
				for _, a := range v.Args {
					walk(a)
				}
			case *ast.TypeAssertExpr:
				walk(v.X) // x.(*T): T is a type name
			case *ast.CompositeLit:
				for _, el := range v.Elts {
					walk(el) // T{...}: T is a type name
				}
			case *ast.KeyValueExpr:
				walk(v.Value) // a struct literal's field key keeps its name
				if _, isIdent := v.Key.(*ast.Ident); !isIdent {
					walk(v.Key)
				}
			default:
				ast.Inspect(n, func(m ast.Node) bool {
					if m == n || m == nil {
						return true
					}
					if e, ok := m.(ast.Expr); ok {
						walk(e)
						return false
					}
					return true
				})
			}
		}
		walk(x)
	}
	exprT := reflect.TypeOf((*ast.Expr)(nil)).Elem()
	visit = func(v reflect.Value) {
		switch v.Kind() {
		case reflect.Interface:
			if v.IsNil() {
				return
			}
			if v.Type() == exprT {
				renameExpr(v.Interface().(ast.Expr))
				return
			}
			visit(v.Elem())
		case reflect.Ptr:
			if !v.IsNil() {
				visit(v.Elem())
			}
		case reflect.Struct:
			for i := 0; i < v.NumField(); i++ {
				if v.Type().Field(i).PkgPath != "" {
					continue
				}
				visit(v.Field(i))
			}
		case reflect.Slice:
			for i := 0; i < v.Len(); i++ {
				visit(v.Index(i))
			}
		case reflect.Map:
			for _, k := range v.MapKeys() {
				visit(v.MapIndex(k))
			}
		}
	}
	visit(reflect.ValueOf(ct))
	// the names the contract gives to parameters / results / receiver
	for i, n := range ct.Params {
		if nn, ok := alias[n]; ok {
			ct.Params[i] = nn
		}
	}
	for i, n := range ct.Results {
		if nn, ok := alias[n]; ok {
			ct.Results[i] = nn
		}
	}
	if nn, ok := alias[ct.Recv]; ok {
		ct.Recv = nn
	}
	for i, g := range ct.GhostLocals {
		_ = i
		_ = g
	}
	return changed
}

// applyDroppedRenames: a `dropped` declaration names a private method whose calls are left out of the analysis (metrics,
// logging helpers). When that method was renamed - it existed when the contracts were written, no function matches the
// declaration now, and exactly one function with the same receiver is new in that package - the declaration follows it.
func (p *Program) applyDroppedRenames(prop string, recorded map[string][]bindEntry) []string {
	var notes []string
	if recorded == nil {
		return nil
	}
	for _, d := range append([]string{}, p.dropped...) {
		dk := strings.ReplaceAll(d, ").", ".")
		i := lastDot(dk)
		if i < 0 {
			continue
		}
		prefix := dk[:i+1]
		exists := false
		for _, fi := range p.funcs {
			if fi.Obj != nil && strings.Contains(fullName(fi.Obj), d) {
				exists = true
				break
			}
		}
		if exists {
			continue
		}
		for key, list := range recorded {
			if !strings.HasPrefix(key, "$functions:") {
				continue
			}
			pkg := key[len("$functions:"):]
			was := false
			known := map[string]bool{}
			for _, f := range list {
				known[f.Name] = true
				if f.Name == dk {
					was = true
				}
			}
			if !was {
				continue
			}
			var cands []string
			for _, fi := range p.funcs {
				if fi.Pkg == nil || fi.Pkg.PkgPath != pkg || fi.Decl == nil || fi.Obj == nil {
					continue
				}
				keys := contractKeys(fi.Obj)
				short := keys[len(keys)-1]
				if strings.HasPrefix(short, prefix) && lastDot(short) == i && !known[short] && p.contractFor(fi.Obj) == nil {
					cands = append(cands, short)
				}
			}
			if len(cands) == 1 {
				nd := strings.TrimSuffix(prefix, ".") + ")." + cands[0][i+1:]
				p.dropped = append(p.dropped, nd)
				notes = append(notes, fmt.Sprintf("dropped helper %s was renamed to %s: the declaration follows it", dk, cands[0]))
			}
		}
	}
	return notes
}
