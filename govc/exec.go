package main

// Forward symbolic execution with eager state merging. Every assignment
// introduces a fresh SMT constant defined by an equality (a conservative
// extension), the path condition is a named Boolean, and every assert becomes
// its own obligation (definitions so far /\ pc /\ not phi must be unsat).

import (
	"fmt"
	"go/ast"
	"go/token"
	"go/types"
	"os"
	"sort"
	"strings"

	"golang.org/x/tools/go/packages"
)

type State struct {
	pc   string
	vars map[string]Term
	// deferred calls registered on this path, per function activation (a defer inside one branch does not run on another)
	defers map[*Frame][]deferred
	// path-sensitive lock history: state at the latest acquire (for atlock), per monitor at its acquire / previous release
	lockSnap *State
	acq, rel map[string]*State
	// template state (definition of a spec function): every key read is a bound variable of the defining axiom
	tmpl *tmplInfo
}

type tmplInfo struct {
	keys  []string
	types []*Type
}

func (s *State) clone() *State {
	n := &State{pc: s.pc, vars: make(map[string]Term, len(s.vars)+4)}
	for k, v := range s.vars {
		n.vars[k] = v
	}
	if len(s.defers) > 0 {
		n.defers = make(map[*Frame][]deferred, len(s.defers))
		for k, v := range s.defers {
			n.defers[k] = append([]deferred(nil), v...)
		}
	}
	n.lockSnap = s.lockSnap
	if len(s.acq) > 0 {
		n.acq = make(map[string]*State, len(s.acq))
		for k, v := range s.acq {
			n.acq[k] = v
		}
	}
	if len(s.rel) > 0 {
		n.rel = make(map[string]*State, len(s.rel))
		for k, v := range s.rel {
			n.rel[k] = v
		}
	}
	return n
}

func (s *State) dead() bool { return s == nil || s.pc == "false" }

type Ret struct {
	st   *State
	vals []Term
}

type Flow struct {
	norm *State
	brk  []*State
	cont []*State
	rets []*Ret
}

type deferred struct {
	call *ast.CallExpr
	// path condition under which the defer statement ran, and whether a join met paths that did not register it
	// (then the call runs under that condition only)
	guard string
	cond  bool
}

type Frame struct {
	hosted   bool // an inlined helper without a contract that now contains loops the top function's contract describes
	fi       *FuncInfo
	info     *types.Info
	pkg      *packages.Package
	subst    map[*types.TypeParam]types.Type
	names    map[string]string // spec-visible name -> var key
	ntypes   map[string]*Type
	resKeys  []string
	resTypes []*Type
	defers   []deferred
	entry    *State
	contract *Contract
	loopOrd  map[ast.Node]int
	depth    int
	top      bool
	litOrd   int
	closures map[string]*ast.FuncLit // var key -> func literal bound to it
	parent   *Frame
}

type Exec struct {
	exitOnly     map[*ast.BlockStmt]bool // blocks of the loop body being analysed that always leave the loop
	curInst      []types.Type            // type arguments of the generic callee whose contract is being applied
	addrCells    map[*ast.UnaryExpr]Term // &x.fld arguments of the call being executed -> their cell
	assignLHS    string
	assignLHSVal string // current value of that left-hand side (a local alias of it is the same slice)
	specDefs     map[string]*specDef
	sliceOrig    map[string]*sliceOrigin
	prog         *Program
	vc           *VC
	mode         string // "seq" | "conc"
	obs          []*Obligation
	obIndex      map[string]*Obligation
	guards       []string
	fnName       string // function under verification (display name)
	topCon       *Contract
	stack        []string // inlining stack (FullName)
	init0        map[string]Term
	notes        []string
	noteSet      map[string]bool
	dropped      map[string]bool
	externs      map[string]bool
	inlined      map[string]bool
	havocs       map[string]bool
	maxInl       int
	errors       []string
	safety       bool
	curPos       string
	axiomsDone   bool
	epochN       int
	qn           int
	usedMonitor  bool
	globalVal    map[string]Term
	lockSnap     *State
	allocKinds   map[string]bool
	axiomText    map[string]string
	knownLen     map[string]int
	callOrd      map[*ast.CallExpr]string
	inlOrd       map[*ast.BlockStmt]map[*ast.CallExpr]string // call ordinals of inlined helpers (moved call sites)
	movedNoted   map[string]bool
	effRecvType  types.Type
	effSubst     map[*types.TypeParam]types.Type
	relSnap      map[string]*State
	acqSnap      map[string]*State
	spawns       []spawned
	inSpawn      bool
	methodVals   map[string]methodVal
	litVals      map[string]*ast.FuncLit
}

type spawned struct {
	call *ast.CallExpr
	fr   *Frame
	st   *State
	pos  string
}

type methodVal struct {
	fn   *types.Func
	recv Term
}

func NewExec(p *Program, smtStr bool) *Exec {
	return &Exec{specDefs: map[string]*specDef{}, sliceOrig: map[string]*sliceOrigin{}, prog: p, vc: NewVC(smtStr), obIndex: map[string]*Obligation{}, init0: map[string]Term{}, noteSet: map[string]bool{},
		dropped: map[string]bool{}, externs: map[string]bool{}, inlined: map[string]bool{}, havocs: map[string]bool{}, maxInl: 6, safety: true, globalVal: map[string]Term{}, allocKinds: map[string]bool{}, axiomText: map[string]string{}, knownLen: map[string]int{}, relSnap: map[string]*State{}, acqSnap: map[string]*State{}, methodVals: map[string]methodVal{}, litVals: map[string]*ast.FuncLit{}}
}

func (e *Exec) note(format string, a ...any) {
	s := fmt.Sprintf(format, a...)
	if !e.noteSet[s] {
		e.noteSet[s] = true
		e.notes = append(e.notes, s)
	}
}

func (e *Exec) errorf(format string, a ...any) {
	e.errors = append(e.errors, fmt.Sprintf(format, a...))
}

// ---------------------------------------------------------------- state helpers

func (e *Exec) initKey(st *State, key string) string {
	if isHeapKey(key) {
		if ep, ok := st.vars["$epoch"]; ok {
			return key + "@e" + ep.S
		}
	}
	return key
}

func (e *Exec) get(st *State, key string, t *Type) Term {
	if v, ok := st.vars[key]; ok {
		return v
	}
	if st.tmpl != nil {
		v := Term{fmt.Sprintf("%s!q%d", mangle(key), e.nextQ()), t}
		st.vars[key] = v
		st.tmpl.keys = append(st.tmpl.keys, key)
		st.tmpl.types = append(st.tmpl.types, t)
		return v
	}
	ik := e.initKey(st, key)
	if v, ok := e.init0[ik]; ok {
		return v
	}
	v := Term{e.vc.FreshConst(key, e.Sort(t)), t}
	e.init0[ik] = v
	return v
}

// set binds key to a fresh constant defined as the value (keeps terms small).
func (e *Exec) set(st *State, key string, v Term) {
	if isAtom(v.S) {
		st.vars[key] = v
		return
	}
	n := e.vc.Define(key, e.Sort(v.T), v.S)
	if o := e.sliceOrig[v.S]; o != nil {
		e.sliceOrig[n] = o
	}
	st.vars[key] = Term{n, v.T}
}

// sliceOrigin: a slice value obtained by a two-index slice expression shares its backing array with the slice it was
// cut from; an append to it may overwrite elements of that slice (slices otherwise have value semantics here).
type sliceOrigin struct {
	base     Term
	lo       string
	text     string
	baseText string // the expression the slice was cut from (type assertions and parentheses stripped)
}

func isAtom(s string) bool {
	return !strings.ContainsAny(s, " (")
}

func (e *Exec) havocKey(st *State, key string, t *Type) Term {
	v := Term{e.vc.FreshConst(key, e.Sort(t)), t}
	if old, ok := st.vars[key]; ok {
		if o := e.sliceOrig[old.S]; o != nil {
			e.sliceOrig[v.S] = o
		}
	}
	st.vars[key] = v
	if t != nil && t.K == KSlice && st.tmpl == nil {
		e.assume(st, fmt.Sprintf("(>= %s 0)", e.seqLen(v))) // a slice has a non-negative length, whatever its value
	}
	return v
}

func (e *Exec) assume(st *State, phi string) {
	if phi == "true" || st.pc == "false" {
		return
	}
	if st.pc == "true" {
		st.pc = e.vc.Define("pc", "Bool", phi)
		return
	}
	st.pc = e.vc.Define("pc", "Bool", fmt.Sprintf("(and %s %s)", st.pc, phi))
}

func (e *Exec) pcWithGuards(st *State) string {
	if len(e.guards) == 0 {
		return st.pc
	}
	return fmt.Sprintf("(and %s %s)", st.pc, strings.Join(e.guards, " "))
}

// assert registers an obligation (merged by name: several program points with
// the same name form one query) and then assumes phi.
func (e *Exec) assert(st *State, name, kind, phi, text, pos string, model map[string]string) {
	if st.dead() {
		return
	}
	if phi == "true" {
		return
	}
	full := name
	if e.mode == "conc" {
		full = name + "@conc"
	}
	o := e.obIndex[full]
	if o == nil {
		o = &Obligation{Name: full, Kind: kind, Func: e.fnName, Mode: e.mode, Pos: pos, Text: text, vc: e.vc, Expect: "unsat", Model: map[string]string{}}
		e.obIndex[full] = o
		e.obs = append(e.obs, o)
	}
	o.Disj = append(o.Disj, fmt.Sprintf("(and %s (not %s))", e.pcWithGuards(st), phi))
	o.DefsLen = len(e.vc.defs)
	for k, v := range model {
		if _, ok := o.Model[k]; !ok {
			o.Model[k] = v
			o.ModelK = append(o.ModelK, k)
		}
	}
	if len(e.guards) == 0 {
		e.assume(st, phi)
	} else {
		e.assume(st, fmt.Sprintf("(=> (and %s) %s)", strings.Join(e.guards, " "), phi))
	}
}

// reach registers a reachability (vacuity) guard: pc must be satisfiable.
func (e *Exec) reach(st *State, name, pos string) {
	full := name
	if e.mode == "conc" {
		full = name + "@conc"
	}
	o := e.obIndex[full]
	if o == nil {
		o = &Obligation{Name: full, Kind: "vacuity", Func: e.fnName, Mode: e.mode, Pos: pos, vc: e.vc, Expect: "sat", Model: map[string]string{}}
		e.obIndex[full] = o
		e.obs = append(e.obs, o)
	}
	pc := "false"
	if st != nil {
		pc = st.pc
	}
	o.Disj = append(o.Disj, pc)
	o.DefsLen = len(e.vc.defs)
}

// merge joins states whose path conditions are mutually exclusive.
func (e *Exec) merge(states []*State) *State {
	var live []*State
	for _, s := range states {
		if s != nil && s.pc != "false" {
			live = append(live, s)
		}
	}
	if len(live) == 0 {
		return &State{pc: "false", vars: map[string]Term{}}
	}
	if len(live) == 1 {
		return live[0]
	}
	out := &State{vars: map[string]Term{}}
	keys := map[string]bool{}
	for _, s := range live {
		for k := range s.vars {
			keys[k] = true
		}
	}
	var ks []string
	for k := range keys {
		ks = append(ks, k)
	}
	sort.Strings(ks)
	// epochs: if the branches disagree, heap keys absent everywhere get a fresh epoch
	epochSame := true
	ep0, has0 := live[0].vars["$epoch"]
	for _, s := range live[1:] {
		ep, has := s.vars["$epoch"]
		if has != has0 || (has && ep.S != ep0.S) {
			epochSame = false
		}
	}
	{
		anyHv := false
		hv := "false"
		for i := len(live) - 1; i >= 0; i-- {
			v := "false"
			if t, ok := live[i].vars["$hv"]; ok {
				v = t.S
				anyHv = true
			}
			if i == len(live)-1 {
				hv = v
			} else {
				hv = fmt.Sprintf("(ite %s %s %s)", live[i].pc, v, hv)
			}
		}
		if anyHv {
			out.vars["$hv"] = Term{e.vc.Define("hv", "Bool", hv), tBool}
		}
	}
	for _, k := range ks {
		if k == "$epoch" || k == "$hv" {
			continue
		}
		var first Term
		same := true
		vals := make([]Term, len(live))
		missing := false
		for i, s := range live {
			v, ok := s.vars[k]
			if !ok {
				if iv, ok2 := e.init0[e.initKey(s, k)]; ok2 {
					v = iv
				} else if isHeapKey(k) || isGlobalKey(k) {
					// materialise the (epoch-specific) initial value using the type seen on another branch
					var ty *Type
					for _, o := range live {
						if ov, ok3 := o.vars[k]; ok3 {
							ty = ov.T
						}
					}
					v = e.get(s, k, ty)
				} else {
					missing = true
					break
				}
			}
			vals[i] = v
			if i == 0 {
				first = v
			} else if v.S != first.S {
				same = false
			}
		}
		if missing {
			// a local declared on one branch only: out of scope after the join
			continue
		}
		if same {
			out.vars[k] = first
			continue
		}
		t := vals[len(vals)-1].S
		for i := len(live) - 2; i >= 0; i-- {
			t = fmt.Sprintf("(ite %s %s %s)", live[i].pc, vals[i].S, t)
		}
		out.vars[k] = Term{e.vc.Define(k, e.Sort(first.T), t), first.T}
		for _, v := range vals {
			if o := e.sliceOrig[v.S]; o != nil {
				e.sliceOrig[out.vars[k].S] = o
				break
			}
		}
	}
	for _, s := range live {
		if out.lockSnap == nil {
			out.lockSnap = s.lockSnap
		}
		for k, v := range s.acq {
			if out.acq == nil {
				out.acq = map[string]*State{}
			}
			if _, ok := out.acq[k]; !ok {
				out.acq[k] = v
			}
		}
		for k, v := range s.rel {
			if out.rel == nil {
				out.rel = map[string]*State{}
			}
			if _, ok := out.rel[k]; !ok {
				out.rel[k] = v
			}
		}
	}
	// deferred calls, per activation: the calls every joined path registered (same statement, same path condition)
	// stay unconditional; the others run under the path condition of their own defer statement only (the paths
	// are mutually exclusive, so the order between calls of different paths does not matter)
	{
		frames := map[*Frame]bool{}
		var order []*Frame
		for _, s := range live {
			for f := range s.defers {
				if !frames[f] {
					frames[f] = true
					order = append(order, f)
				}
			}
		}
		for _, f := range order {
			common := 0
			for {
				ok := true
				for _, s := range live {
					l := s.defers[f]
					l0 := live[0].defers[f]
					if common >= len(l) || common >= len(l0) || l[common].call != l0[common].call || l[common].guard != l0[common].guard || l[common].cond != l0[common].cond {
						ok = false
						break
					}
				}
				if !ok {
					break
				}
				common++
			}
			var l []deferred
			l = append(l, live[0].defers[f][:common]...)
			seen := map[string]bool{}
			for _, s := range live {
				for _, d := range s.defers[f][common:] {
					key := fmt.Sprintf("%p/%s", d.call, d.guard)
					if seen[key] {
						continue
					}
					seen[key] = true
					d.cond = true
					l = append(l, d)
				}
			}
			if out.defers == nil {
				out.defers = map[*Frame][]deferred{}
			}
			out.defers[f] = l
		}
	}
	if epochSame {
		if has0 {
			out.vars["$epoch"] = ep0
		}
	} else {
		e.epochN++
		out.vars["$epoch"] = Term{fmt.Sprintf("%d", e.epochN), tInt}
	}
	var pcs []string
	for _, s := range live {
		pcs = append(pcs, s.pc)
	}
	out.pc = e.vc.Define("pc", "Bool", "(or "+strings.Join(pcs, " ")+")")
	return out
}

// ---------------------------------------------------------------- variables

func (e *Exec) keyOf(obj types.Object) string {
	if obj == nil {
		return "_"
	}
	if v, ok := obj.(*types.Var); ok && !v.IsField() && obj.Pkg() != nil && obj.Parent() == obj.Pkg().Scope() {
		return "G!" + obj.Pkg().Path() + "." + obj.Name()
	}
	return fmt.Sprintf("%s#%d", obj.Name(), int(obj.Pos()))
}

func (e *Exec) declare(fr *Frame, obj types.Object, st *State, v Term) {
	k := e.keyOf(obj)
	e.set(st, k, v)
	if obj.Name() != "_" {
		fr.names[obj.Name()] = k
		fr.ntypes[obj.Name()] = v.T
	}
}

// ---------------------------------------------------------------- statements

func (e *Exec) block(list []ast.Stmt, st *State, fr *Frame) Flow {
	fl := Flow{norm: st}
	for _, s := range list {
		if fl.norm.dead() {
			break
		}
		f := e.stmt(s, fl.norm, fr)
		fl.norm = f.norm
		fl.brk = append(fl.brk, f.brk...)
		fl.cont = append(fl.cont, f.cont...)
		fl.rets = append(fl.rets, f.rets...)
	}
	return fl
}

func (e *Exec) ctx(st *State, fr *Frame) *Ctx {
	return &Ctx{st: st, fr: fr}
}

func (e *Exec) stmt(s ast.Stmt, st *State, fr *Frame) Flow {
	e.curPos = e.prog.pos(s)
	switch x := s.(type) {
	case *ast.BlockStmt:
		return e.block(x.List, st, fr)
	case *ast.EmptyStmt:
		return Flow{norm: st}
	case *ast.ExprStmt:
		c := e.ctx(st, fr)
		if call, ok := x.X.(*ast.CallExpr); ok {
			e.call(call, c, 0)
		} else {
			e.eval(x.X, c)
		}
		return Flow{norm: st}
	case *ast.LabeledStmt:
		return e.stmt(x.Stmt, st, fr)
	case *ast.DeclStmt:
		gd, ok := x.Decl.(*ast.GenDecl)
		if !ok || gd.Tok != token.VAR {
			return Flow{norm: st}
		}
		for _, sp := range gd.Specs {
			vs := sp.(*ast.ValueSpec)
			if len(vs.Values) == 1 && len(vs.Names) > 1 {
				vals := e.evalMulti(vs.Values[0], e.ctx(st, fr), len(vs.Names))
				for i, n := range vs.Names {
					e.declare(fr, fr.info.Defs[n], st, vals[i])
				}
				continue
			}
			for i, n := range vs.Names {
				obj := fr.info.Defs[n]
				if obj == nil {
					continue
				}
				t := e.prog.TypeOf(obj.Type(), fr.subst)
				if i < len(vs.Values) {
					v := e.eval(vs.Values[i], e.ctx(st, fr))
					e.declare(fr, obj, st, e.coerce(v, t, st))
				} else {
					e.declare(fr, obj, st, e.Zero(t))
				}
			}
		}
		return Flow{norm: st}
	case *ast.AssignStmt:
		// x = append(x[:i], ...): the variable the sub-slice was cut from is overwritten with the result (delete idiom)
		saved, savedV := e.assignLHS, e.assignLHSVal
		e.assignLHS, e.assignLHSVal = "", ""
		if len(x.Lhs) == 1 && len(x.Rhs) == 1 && x.Tok == token.ASSIGN {
			e.assignLHS = exprText(x.Lhs[0])
			if id, ok := unparen(x.Lhs[0]).(*ast.Ident); ok && id.Name != "_" {
				if _, isCall := unparen(x.Rhs[0]).(*ast.CallExpr); isCall {
					e.assignLHSVal = e.eval(id, e.ctx(st, fr)).S
				}
			}
		}
		e.assignStmt(x, st, fr)
		e.assignLHS, e.assignLHSVal = saved, savedV
		return Flow{norm: st}
	case *ast.IncDecStmt:
		c := e.ctx(st, fr)
		v := e.eval(x.X, c)
		op := "+"
		if x.Tok == token.DEC {
			op = "-"
		}
		one := "1"
		if v.T.K == KReal {
			one = "1.0"
		}
		e.assign(x.X, Term{fmt.Sprintf("(%s %s %s)", op, v.S, one), v.T}, c)
		return Flow{norm: st}
	case *ast.IfStmt:
		if x.Init != nil {
			f := e.stmt(x.Init, st, fr)
			st = f.norm
		}
		c := e.ctx(st, fr)
		cond := e.evalCond(x.Cond, c)
		cn := e.vc.Define("c", "Bool", cond)
		thenS := st.clone()
		e.assume(thenS, cn)
		elseS := st.clone()
		e.assume(elseS, "(not "+cn+")")
		saved := copyNames(fr)
		f1 := e.block(x.Body.List, thenS, fr)
		restoreNames(fr, saved)
		var f2 Flow
		if x.Else != nil {
			f2 = e.stmt(x.Else, elseS, fr)
			restoreNames(fr, saved)
		} else {
			f2 = Flow{norm: elseS}
		}
		return Flow{norm: e.merge([]*State{f1.norm, f2.norm}), brk: append(f1.brk, f2.brk...), cont: append(f1.cont, f2.cont...), rets: append(f1.rets, f2.rets...)}
	case *ast.ReturnStmt:
		return e.returnStmt(x, st, fr)
	case *ast.BranchStmt:
		switch x.Tok {
		case token.BREAK:
			return Flow{brk: []*State{st}}
		case token.CONTINUE:
			return Flow{cont: []*State{st}}
		}
		e.errorf("%s: unsupported branch statement %s", e.prog.pos(x), x.Tok)
		return Flow{norm: st}
	case *ast.ForStmt:
		return e.forStmt(x, st, fr)
	case *ast.RangeStmt:
		return e.rangeStmt(x, st, fr)
	case *ast.SwitchStmt:
		return e.switchStmt(x, st, fr)
	case *ast.TypeSwitchStmt:
		return e.typeSwitchStmt(x, st, fr)
	case *ast.DeferStmt:
		if st.defers == nil {
			st.defers = map[*Frame][]deferred{}
		}
		st.defers[fr] = append(st.defers[fr], deferred{call: x.Call, guard: st.pc})
		// arguments of deferred calls are evaluated now in Go; the kernels only defer
		// argument-less unlock/done/close calls and closures, so nothing to snapshot.
		return Flow{norm: st}
	case *ast.GoStmt:
		// the goroutine runs concurrently: not part of this activation, but it is verified separately
		// (started from an arbitrary later state) against the contract's `spawn modifies` clause
		if !e.inSpawn {
			e.spawns = append(e.spawns, spawned{x.Call, fr, st.clone(), e.prog.pos(x)})
			tf := fr
			for tf != nil && !tf.top && tf.parent != nil {
				tf = tf.parent
			}
			if tf != nil && tf.top && tf.contract != nil {
				for _, rq := range tf.contract.SpawnReq {
					sc := &Ctx{st: st, fr: tf, spec: true, old: tf.entry}
					phi := e.evalCond(rq.Expr, sc)
					e.assert(st, fmt.Sprintf("%s#spawn%d.requires[%s]", e.fnName, len(e.spawns), rq.Label), "assertion", phi, rq.Text, e.prog.pos(x), e.modelVars(st, tf))
				}
			}
		}
		return Flow{norm: st}
	case *ast.SendStmt:
		c := e.ctx(st, fr)
		e.eval(x.Value, c)
		e.eval(x.Chan, c)
		e.advanceTime(st, "0")
		return Flow{norm: st}
	case *ast.SelectStmt:
		return e.selectStmt(x, st, fr)
	}
	e.errorf("%s: unsupported statement %T", e.prog.pos(s), s)
	return Flow{norm: st}
}

func copyNames(fr *Frame) map[string]string {
	m := make(map[string]string, len(fr.names))
	for k, v := range fr.names {
		m[k] = v
	}
	return m
}

func restoreNames(fr *Frame, m map[string]string) {
	// keep names declared in inner scopes visible for loop invariants (by design: locals are
	// addressed by name), but restore shadowed outer names
	for k, v := range m {
		fr.names[k] = v
	}
}

func (e *Exec) assignStmt(x *ast.AssignStmt, st *State, fr *Frame) {
	c := e.ctx(st, fr)
	if x.Tok != token.ASSIGN && x.Tok != token.DEFINE {
		// op=
		l := e.eval(x.Lhs[0], c)
		r := e.eval(x.Rhs[0], c)
		var tok token.Token
		switch x.Tok {
		case token.ADD_ASSIGN:
			tok = token.ADD
		case token.SUB_ASSIGN:
			tok = token.SUB
		case token.MUL_ASSIGN:
			tok = token.MUL
		case token.QUO_ASSIGN:
			tok = token.QUO
		case token.REM_ASSIGN:
			tok = token.REM
		default:
			e.errorf("%s: unsupported assignment operator %s", e.prog.pos(x), x.Tok)
			return
		}
		e.assign(x.Lhs[0], e.binop(tok, l, r, c, x), c)
		return
	}
	var vals []Term
	if len(x.Rhs) == 1 && len(x.Lhs) > 1 {
		vals = e.evalMulti(x.Rhs[0], c, len(x.Lhs))
	} else {
		for _, r := range x.Rhs {
			vals = append(vals, e.eval(r, c))
		}
	}
	for i, l := range x.Lhs {
		if i >= len(vals) {
			break
		}
		if id, ok := l.(*ast.Ident); ok {
			if id.Name == "_" {
				continue
			}
			if x.Tok == token.DEFINE {
				if obj := fr.info.Defs[id]; obj != nil {
					t := e.prog.TypeOf(obj.Type(), fr.subst)
					e.declare(fr, obj, st, e.coerce(vals[i], t, st))
					// remember closures bound to locals
					if len(x.Rhs) == len(x.Lhs) {
						if fl, ok := x.Rhs[i].(*ast.FuncLit); ok {
							fr.closures[e.keyOf(obj)] = fl
						}
					}
					continue
				}
			}
		}
		e.assign(l, vals[i], c)
		if id, ok := l.(*ast.Ident); ok && len(x.Rhs) == len(x.Lhs) {
			if fl, ok := x.Rhs[i].(*ast.FuncLit); ok {
				if obj := fr.info.Uses[id]; obj != nil {
					fr.closures[e.keyOf(obj)] = fl
				}
			}
		}
	}
}

func (e *Exec) returnStmt(x *ast.ReturnStmt, st *State, fr *Frame) Flow {
	c := e.ctx(st, fr)
	var vals []Term
	if len(x.Results) == 0 {
		for i, k := range fr.resKeys {
			vals = append(vals, e.get(st, k, fr.resTypes[i]))
		}
	} else if len(x.Results) == 1 && len(fr.resTypes) > 1 {
		vals = e.evalMulti(x.Results[0], c, len(fr.resTypes))
	} else {
		for _, r := range x.Results {
			vals = append(vals, e.eval(r, c))
		}
	}
	for i := range vals {
		if i < len(fr.resTypes) {
			vals[i] = e.coerce(vals[i], fr.resTypes[i], st)
		}
	}
	// named results are assigned (visible to deferred closures and to ensures via names)
	for i, k := range fr.resKeys {
		if i < len(vals) && k != "" {
			e.set(st, k, vals[i])
		}
	}
	return Flow{rets: []*Ret{{st, vals}}}
}

// finishReturn runs ghost updates and deferred calls of the frame on a return state.
func (e *Exec) finishReturn(r *Ret, fr *Frame) {
	st := r.st
	if fr.top && fr.contract != nil {
		e.runOnReturn(r, fr)
	}
	dl := st.defers[fr]
	delete(st.defers, fr)
	for i := len(dl) - 1; i >= 0; i-- {
		d := dl[i]
		if os.Getenv("GOVC_DEBUG") != "" {
			fmt.Fprintf(os.Stderr, "DEBUG defer in %s: cond=%v guard=%s pc=%s\n", e.fnName, d.cond, d.guard, st.pc)
		}
		if d.cond && !st.dead() {
			on := st.clone()
			on.pc = e.vc.Define("pc", "Bool", fmt.Sprintf("(and %s %s)", st.pc, d.guard))
			off := st.clone()
			off.pc = e.vc.Define("pc", "Bool", fmt.Sprintf("(and %s (not %s))", st.pc, d.guard))
			e.call(d.call, e.ctx(on, fr), 0)
			*st = *e.merge([]*State{on, off})
			continue
		}
		c := e.ctx(st, fr)
		e.call(d.call, c, 0)
	}
	// deferred closures may have changed named results
	for i, k := range fr.resKeys {
		if k != "" && i < len(r.vals) && fr.fi != nil && fr.fi.Decl.Type.Results != nil && namedResults(fr.fi.Decl) {
			r.vals[i] = e.get(st, k, fr.resTypes[i])
		}
	}
}

func namedResults(d *ast.FuncDecl) bool {
	if d.Type.Results == nil {
		return false
	}
	for _, f := range d.Type.Results.List {
		if len(f.Names) > 0 {
			return true
		}
	}
	return false
}

func (e *Exec) loopInvs(fr *Frame, node ast.Node) (int, []Clause) {
	if fr.contract == nil || fr.loopOrd == nil {
		return 0, nil
	}
	n := fr.loopOrd[node]
	return n, fr.contract.LoopInvs[n]
}

func (e *Exec) checkInvs(st *State, fr *Frame, ord int, invs []Clause, phase string, old *State) {
	// every clause is checked against the same state (not against its siblings already assumed): the sibling
	// clauses of the post-state are consequences of the same premises, and quantified ones only slow the solver
	if phase == "preserved" && fr.contract != nil {
		for _, a := range fr.contract.LoopDo[ord] {
			sc := &Ctx{st: st, fr: fr, spec: true, old: old}
			e.assign(a.LHS, e.eval(a.RHS, sc), sc)
		}
		for _, h := range fr.contract.LoopHints[ord] {
			sc := &Ctx{st: st, fr: fr, spec: true, old: old}
			phi := e.evalCond(h.Expr, sc)
			name := fmt.Sprintf("%s#loop%d.hint[%s]", e.fnName, ord, h.Label)
			e.assert(st, name, "loop-hint", phi, h.Text, fmt.Sprintf("%s:%d", shortFile(h.File), h.Line), e.modelVars(st, fr))
		}
	}
	base := st.pc
	var phis []string
	for _, inv := range invs {
		sc := &Ctx{st: st, fr: fr, spec: true, old: old}
		st.pc = base
		phi := e.evalCond(inv.Expr, sc)
		name := fmt.Sprintf("%s#loop%d.inv[%s].%s", e.fnName, ord, inv.Label, phase)
		e.assert(st, name, "loop-invariant", phi, inv.Text, fmt.Sprintf("%s:%d", shortFile(inv.File), inv.Line), e.modelVars(st, fr))
		phis = append(phis, phi)
	}
	st.pc = base
	if !st.dead() {
		for _, phi := range phis {
			if len(e.guards) == 0 {
				e.assume(st, phi)
			} else {
				e.assume(st, fmt.Sprintf("(=> (and %s) %s)", strings.Join(e.guards, " "), phi))
			}
		}
	}
}

func (e *Exec) assumeInvs(st *State, fr *Frame, invs []Clause, old *State) {
	for _, inv := range invs {
		sc := &Ctx{st: st, fr: fr, spec: true, old: old}
		e.assume(st, e.evalCond(inv.Expr, sc))
	}
}

func shortFile(f string) string {
	if i := strings.Index(f, "/proxy/src/"); i >= 0 {
		return f[i+len("/proxy/src/"):]
	}
	return f
}

func (e *Exec) forStmt(x *ast.ForStmt, st *State, fr *Frame) Flow {
	if x.Init != nil {
		st = e.stmt(x.Init, st, fr).norm
	}
	ord, invs := e.loopInvs(fr, x)
	entry := fr.entry
	// counting loop `for i := a; ...; i++` whose body does not assign i: i never drops below its initial value, and the
	// number of completed iterations (idx<ord>, the same name a range loop's hidden counter has) is i - a
	ctrKey, ctrInit, ik := "", Term{}, ""
	if as, ok := x.Init.(*ast.AssignStmt); ok && as.Tok == token.DEFINE && len(as.Lhs) == 1 && len(as.Rhs) == 1 {
		if id, ok := as.Lhs[0].(*ast.Ident); ok {
			if inc, ok := x.Post.(*ast.IncDecStmt); ok && inc.Tok == token.INC {
				if pid, ok := unparen(inc.X).(*ast.Ident); ok && fr.info.Defs[id] != nil && fr.info.Uses[pid] == fr.info.Defs[id] {
					k := e.keyOf(fr.info.Defs[id])
					if _, assigned := e.effectsOf(fr, x.Body).locals[k]; !assigned {
						if _, escaped := st.vars["&addr!"+k]; !escaped {
							if v, ok := st.vars[k]; ok && v.T.K == KInt {
								ctrKey, ctrInit = k, v
								ik = fmt.Sprintf("$i!%d", int(x.Pos()))
								fr.names[fmt.Sprintf("idx%d", ord)] = ik
								fr.ntypes[fmt.Sprintf("idx%d", ord)] = tInt
								e.set(st, ik, Term{"0", tInt})
							}
						}
					}
				}
			}
		}
	}
	e.checkInvs(st.clone(), fr, ord, invs, "entry", entry) // on a copy: the loop head assumes the invariant afresh
	eff := e.effectsOf(fr, x.Body, x.Post, x.Cond)
	head := st.clone()
	e.loopHavoc(head, fr, eff, ord)
	if ctrKey != "" {
		cur := e.get(head, ctrKey, ctrInit.T)
		e.assume(head, fmt.Sprintf("(>= %s %s)", cur.S, ctrInit.S))
		e.set(head, ik, Term{fmt.Sprintf("(- %s %s)", cur.S, ctrInit.S), tInt})
	}
	e.assumeInvs(head, fr, invs, entry)
	headSnap := head.clone()
	var exits []*State
	body := head.clone()
	if x.Cond != nil {
		c := e.ctx(head, fr)
		cond := e.evalCond(x.Cond, c)
		cn := e.vc.Define("lc", "Bool", cond)
		body = head.clone()
		e.assume(body, cn)
		ex := head.clone()
		e.assume(ex, "(not "+cn+")")
		exits = append(exits, ex)
	}
	if len(invs) > 0 {
		e.reach(body, fmt.Sprintf("%s#loop%d.reach", e.fnName, ord), e.prog.pos(x))
	}
	saved := copyNames(fr)
	f := e.block(x.Body.List, body, fr)
	after := e.merge(append([]*State{f.norm}, f.cont...))
	if !after.dead() && x.Post != nil {
		after = e.stmt(x.Post, after, fr).norm
	}
	if !after.dead() && ctrKey != "" {
		cur := e.get(after, ctrKey, ctrInit.T)
		e.set(after, ik, Term{fmt.Sprintf("(- %s %s)", cur.S, ctrInit.S), tInt})
	}
	if !after.dead() {
		e.checkInvs(after, fr, ord, invs, "preserved", entry)
		e.loopFrameCheck(headSnap, after, fr, ord, e.prog.pos(x))
	}
	restoreNames(fr, saved)
	exits = append(exits, f.brk...)
	return Flow{norm: e.merge(exits), rets: f.rets}
}

func (e *Exec) rangeStmt(x *ast.RangeStmt, st *State, fr *Frame) Flow {
	c := e.ctx(st, fr)
	coll := e.eval(x.X, c)
	ord, invs := e.loopInvs(fr, x)
	entry := fr.entry
	bind := func(id ast.Expr, s *State, v Term) {
		if id == nil {
			return
		}
		ident, ok := id.(*ast.Ident)
		if ok && ident.Name == "_" {
			return
		}
		if ok && x.Tok == token.DEFINE {
			if obj := fr.info.Defs[ident]; obj != nil {
				e.declare(fr, obj, s, v)
				return
			}
		}
		e.assign(id, v, e.ctx(s, fr))
	}
	if n, ok := e.knownLen[coll.S]; ok && coll.T.K == KSlice && n <= 4 && len(invs) == 0 {
		// a slice of known small length (a packed variadic argument): unroll
		var out Flow
		cur := st
		var exits []*State
		for j := 0; j < n && !cur.dead(); j++ {
			if x.Key != nil {
				bind(x.Key, cur, Term{fmt.Sprintf("%d", j), tInt})
			}
			if x.Value != nil {
				bind(x.Value, cur, e.seqGet(coll, fmt.Sprintf("%d", j)))
			}
			saved := copyNames(fr)
			f := e.block(x.Body.List, cur, fr)
			restoreNames(fr, saved)
			out.rets = append(out.rets, f.rets...)
			exits = append(exits, f.brk...)
			cur = e.merge(append([]*State{f.norm}, f.cont...))
		}
		exits = append(exits, cur)
		out.norm = e.merge(exits)
		return out
	}
	switch coll.T.K {
	case KSlice, KInt:
		ik := fmt.Sprintf("$i!%d", int(x.Pos()))
		e.set(st, ik, Term{"0", tInt})
		fr.names[fmt.Sprintf("$i%d", ord)] = ik
		fr.names[fmt.Sprintf("idx%d", ord)] = ik // spec-visible name of the hidden range counter of loop <ord>
		fr.ntypes[fmt.Sprintf("idx%d", ord)] = tInt
		n := coll.S
		if coll.T.K == KSlice {
			n = e.seqLen(coll)
		}
		nn := e.vc.Define("rangelen", "Int", n)
		// `for k, v = range s` (assignment form): the variables outlive the loop; after it they hold the values of the last
		// iteration, or what they held before when there was none
		var preKey, preVal *Term
		if x.Tok == token.ASSIGN {
			if id, ok := x.Key.(*ast.Ident); ok && id.Name != "_" {
				t := e.eval(id, e.ctx(st, fr))
				preKey = &t
			}
			if id, ok := x.Value.(*ast.Ident); ok && id.Name != "_" {
				t := e.eval(id, e.ctx(st, fr))
				preVal = &t
			}
		}
		// make the index variable visible before the invariants are evaluated
		if x.Key != nil {
			bind(x.Key, st, Term{"0", tInt})
		}
		if x.Value != nil && coll.T.K == KSlice {
			bind(x.Value, st, e.seqGet(coll, "0"))
		}
		e.checkInvs(st.clone(), fr, ord, invs, "entry", entry) // on a copy: the loop head assumes the invariant afresh
		eff := e.effectsOf(fr, x.Body)
		head := st.clone()
		e.loopHavoc(head, fr, eff, ord)
		iv := e.havocKey(head, ik, tInt)
		e.assume(head, fmt.Sprintf("(and (<= 0 %s) (<= %s %s))", iv.S, iv.S, nn))
		if x.Key != nil {
			bind(x.Key, head, iv)
		}
		if x.Value != nil && coll.T.K == KSlice {
			bind(x.Value, head, e.seqGet(coll, iv.S))
		}
		e.assumeInvs(head, fr, invs, entry)
		headSnap := head.clone()
		ex := head.clone()
		e.assume(ex, fmt.Sprintf("(>= %s %s)", iv.S, nn))
		if preKey != nil {
			bind(x.Key, ex, Term{fmt.Sprintf("(ite (> %s 0) (- %s 1) %s)", nn, nn, preKey.S), tInt})
		}
		if preVal != nil && coll.T.K == KSlice {
			last := e.seqGet(coll, fmt.Sprintf("(- %s 1)", nn))
			bind(x.Value, ex, Term{fmt.Sprintf("(ite (> %s 0) %s %s)", nn, last.S, e.coerce(*preVal, last.T, ex).S), last.T})
		}
		body := head.clone()
		e.assume(body, fmt.Sprintf("(< %s %s)", iv.S, nn))
		if len(invs) > 0 {
			e.reach(body, fmt.Sprintf("%s#loop%d.reach", e.fnName, ord), e.prog.pos(x))
		}
		saved := copyNames(fr)
		f := e.block(x.Body.List, body, fr)
		after := e.merge(append([]*State{f.norm}, f.cont...))
		if !after.dead() {
			cur := e.get(after, ik, tInt)
			next := Term{fmt.Sprintf("(+ %s 1)", cur.S), tInt}
			e.set(after, ik, next)
			nv := e.get(after, ik, tInt)
			if x.Key != nil {
				bind(x.Key, after, nv)
			}
			if x.Value != nil && coll.T.K == KSlice {
				bind(x.Value, after, e.seqGet(coll, nv.S))
			}
			e.checkInvs(after, fr, ord, invs, "preserved", entry)
			e.loopFrameCheck(headSnap, after, fr, ord, e.prog.pos(x))
		}
		restoreNames(fr, saved)
		return Flow{norm: e.merge(append([]*State{ex}, f.brk...)), rets: f.rets}
	case KMap:
		// iteration in arbitrary order with a ghost "seen" set
		ks := e.Sort(coll.T.Key)
		seenT := &Type{K: KGMap, Key: coll.T.Key, Elem: tBool}
		sk := fmt.Sprintf("$seen!%d", int(x.Pos()))
		fr.names[fmt.Sprintf("seen%d", ord)] = sk
		fr.ntypes[fmt.Sprintf("seen%d", ord)] = seenT
		e.set(st, sk, Term{fmt.Sprintf("((as const (Array %s Bool)) false)", ks), seenT})
		// declare key/value names so invariants can mention them
		if x.Key != nil {
			bind(x.Key, st, e.Zero(coll.T.Key))
		}
		if x.Value != nil {
			bind(x.Value, st, e.Zero(coll.T.Elem))
		}
		e.checkInvs(st.clone(), fr, ord, invs, "entry", entry) // on a copy: the loop head assumes the invariant afresh
		eff := e.effectsOf(fr, x.Body)
		head := st.clone()
		e.loopHavoc(head, fr, eff, ord)
		seen := e.havocKey(head, sk, seenT)
		// a nil map has no keys
		dom := e.vc.Define("rdom", fmt.Sprintf("(Array %s Bool)", ks), fmt.Sprintf("(ite (= %s 0) ((as const (Array %s Bool)) false) %s)", coll.S, ks, e.mapDom(head, coll)))
		// seen is a subset of dom
		kq := e.vc.FreshConst("kq", ks)
		_ = kq
		e.assume(head, fmt.Sprintf("(forall ((k!s %s)) (=> (select %s k!s) (select %s k!s)))", ks, seen.S, dom))
		e.assumeInvs(head, fr, invs, entry)
		headSnap := head.clone()
		// exit: seen == dom
		ex := head.clone()
		e.assume(ex, fmt.Sprintf("(= %s %s)", seen.S, dom))
		body := head.clone()
		kv := Term{e.vc.FreshConst("rk", ks), coll.T.Key}
		e.assume(body, fmt.Sprintf("(and (select %s %s) (not (select %s %s)))", dom, kv.S, seen.S, kv.S))
		if x.Key != nil {
			bind(x.Key, body, kv)
		}
		if x.Value != nil {
			bind(x.Value, body, Term{fmt.Sprintf("(select %s %s)", e.mapVal(body, coll), kv.S), coll.T.Elem})
		}
		if len(invs) > 0 {
			e.reach(body, fmt.Sprintf("%s#loop%d.reach", e.fnName, ord), e.prog.pos(x))
		}
		saved := copyNames(fr)
		f := e.block(x.Body.List, body, fr)
		after := e.merge(append([]*State{f.norm}, f.cont...))
		if !after.dead() {
			cur := e.get(after, sk, seenT)
			if isNumeric(coll.T.Elem) {
				// partial sum over the visited keys grows by the value of the key just visited
				vals := e.mapVal(after, coll)
				curN := cur.S
				if !isAtom(curN) {
					curN = e.vc.Define("seen", e.Sort(seenT), cur.S)
				}
				e.vc.Fact(fmt.Sprintf("(=> (not (select %s %s)) (= %s (+ %s (select %s %s))))", curN, kv.S,
					e.msumTerm(fmt.Sprintf("(store %s %s true)", curN, kv.S), vals, coll.T), e.msumTerm(curN, vals, coll.T), vals, kv.S))
			}
			e.set(after, sk, Term{fmt.Sprintf("(store %s %s true)", cur.S, kv.S), seenT})
			e.checkInvs(after, fr, ord, invs, "preserved", entry)
			e.loopFrameCheck(headSnap, after, fr, ord, e.prog.pos(x))
		}
		restoreNames(fr, saved)
		return Flow{norm: e.merge(append([]*State{ex}, f.brk...)), rets: f.rets}
	}
	// unsupported collection (channel, string, func): arbitrary number of iterations with havoc
	e.note("range over %s at %s is over-approximated (havoc)", coll.T, e.prog.pos(x))
	eff := e.effectsOf(fr, x.Body)
	head := st.clone()
	e.havocEffects(head, fr, eff)
	if x.Key != nil {
		if id, ok := x.Key.(*ast.Ident); ok && x.Tok == token.DEFINE && id.Name != "_" {
			if obj := fr.info.Defs[id]; obj != nil {
				t := e.prog.TypeOf(obj.Type(), fr.subst)
				e.declare(fr, obj, head, Term{e.vc.FreshConst(id.Name, e.Sort(t)), t})
			}
		}
	}
	if x.Value != nil {
		if id, ok := x.Value.(*ast.Ident); ok && x.Tok == token.DEFINE && id.Name != "_" {
			if obj := fr.info.Defs[id]; obj != nil {
				t := e.prog.TypeOf(obj.Type(), fr.subst)
				e.declare(fr, obj, head, Term{e.vc.FreshConst(id.Name, e.Sort(t)), t})
			}
		}
	}
	ex := head.clone()
	f := e.block(x.Body.List, head.clone(), fr)
	return Flow{norm: e.merge(append([]*State{ex}, f.brk...)), rets: f.rets}
}

func (e *Exec) switchStmt(x *ast.SwitchStmt, st *State, fr *Frame) Flow {
	if x.Init != nil {
		st = e.stmt(x.Init, st, fr).norm
	}
	var tag *Term
	if x.Tag != nil {
		t := e.eval(x.Tag, e.ctx(st, fr))
		tn := Term{e.vc.Define("tag", e.Sort(t.T), t.S), t.T}
		tag = &tn
	}
	var out Flow
	var norms []*State
	rest := st
	var defaultClause *ast.CaseClause
	for _, cc := range x.Body.List {
		cl := cc.(*ast.CaseClause)
		if cl.List == nil {
			defaultClause = cl
			continue
		}
		var conds []string
		for _, ce := range cl.List {
			c := e.ctx(rest, fr)
			if tag != nil {
				v := e.eval(ce, c)
				conds = append(conds, e.eqTerm(*tag, v, rest))
			} else {
				conds = append(conds, e.evalCond(ce, c))
			}
		}
		cond := conds[0]
		if len(conds) > 1 {
			cond = "(or " + strings.Join(conds, " ") + ")"
		}
		cn := e.vc.Define("sc", "Bool", cond)
		taken := rest.clone()
		e.assume(taken, cn)
		nrest := rest.clone()
		e.assume(nrest, "(not "+cn+")")
		rest = nrest
		saved := copyNames(fr)
		f := e.block(cl.Body, taken, fr)
		restoreNames(fr, saved)
		norms = append(norms, f.norm)
		norms = append(norms, f.brk...) // break inside switch leaves the switch
		out.cont = append(out.cont, f.cont...)
		out.rets = append(out.rets, f.rets...)
	}
	if defaultClause != nil {
		saved := copyNames(fr)
		f := e.block(defaultClause.Body, rest, fr)
		restoreNames(fr, saved)
		norms = append(norms, f.norm)
		norms = append(norms, f.brk...)
		out.cont = append(out.cont, f.cont...)
		out.rets = append(out.rets, f.rets...)
	} else {
		norms = append(norms, rest)
	}
	out.norm = e.merge(norms)
	return out
}

func (e *Exec) typeSwitchStmt(x *ast.TypeSwitchStmt, st *State, fr *Frame) Flow {
	if x.Init != nil {
		st = e.stmt(x.Init, st, fr).norm
	}
	var subject ast.Expr
	var bindName *ast.Ident
	switch a := x.Assign.(type) {
	case *ast.ExprStmt:
		subject = a.X.(*ast.TypeAssertExpr).X
	case *ast.AssignStmt:
		subject = a.Rhs[0].(*ast.TypeAssertExpr).X
		bindName = a.Lhs[0].(*ast.Ident)
	}
	sv := e.eval(subject, e.ctx(st, fr))
	var out Flow
	var norms []*State
	rest := st
	var defaultClause *ast.CaseClause
	for _, cc := range x.Body.List {
		cl := cc.(*ast.CaseClause)
		if cl.List == nil {
			defaultClause = cl
			continue
		}
		var conds []string
		var single *Type
		for _, te := range cl.List {
			if id, ok := te.(*ast.Ident); ok && id.Name == "nil" {
				conds = append(conds, fmt.Sprintf("(= %s A_nil)", sv.S))
				continue
			}
			tv := fr.info.Types[te]
			t := e.prog.TypeOf(tv.Type, fr.subst)
			_, ok := e.fromAny(sv, t, rest)
			conds = append(conds, ok)
			if len(cl.List) == 1 {
				single = t
			}
		}
		cond := conds[0]
		if len(conds) > 1 {
			cond = "(or " + strings.Join(conds, " ") + ")"
		}
		cn := e.vc.Define("tc", "Bool", cond)
		taken := rest.clone()
		e.assume(taken, cn)
		nrest := rest.clone()
		e.assume(nrest, "(not "+cn+")")
		rest = nrest
		saved := copyNames(fr)
		if bindName != nil {
			if obj := fr.info.Implicits[cl]; obj != nil {
				if single != nil {
					v, _ := e.fromAny(sv, single, taken)
					e.declare(fr, obj, taken, v)
				} else {
					e.declare(fr, obj, taken, sv)
				}
			}
		}
		f := e.block(cl.Body, taken, fr)
		restoreNames(fr, saved)
		norms = append(norms, f.norm)
		norms = append(norms, f.brk...)
		out.cont = append(out.cont, f.cont...)
		out.rets = append(out.rets, f.rets...)
	}
	if defaultClause != nil {
		saved := copyNames(fr)
		if bindName != nil {
			if obj := fr.info.Implicits[defaultClause]; obj != nil {
				e.declare(fr, obj, rest, sv)
			}
		}
		f := e.block(defaultClause.Body, rest, fr)
		restoreNames(fr, saved)
		norms = append(norms, f.norm)
		norms = append(norms, f.brk...)
		out.cont = append(out.cont, f.cont...)
		out.rets = append(out.rets, f.rets...)
	} else {
		norms = append(norms, rest)
	}
	out.norm = e.merge(norms)
	return out
}

func (e *Exec) selectStmt(x *ast.SelectStmt, st *State, fr *Frame) Flow {
	// non-deterministic choice between the communication clauses, constrained by channel semantics:
	// a send on an unbuffered channel is chosen only if a receiver is parked on it; default only if no send can proceed
	var out Flow
	var norms []*State
	n := len(x.Body.List)
	choice := e.vc.FreshConst("select", "Int")
	ord := 0
	if fr.top && fr.loopOrd != nil {
		ord = fr.loopOrd[x]
	}
	// channel terms of the send cases (evaluated once, before the choice)
	var sendReady []string
	for _, cc := range x.Body.List {
		cl := cc.(*ast.CommClause)
		if ss, ok := cl.Comm.(*ast.SendStmt); ok {
			ch := e.eval(ss.Chan, e.ctx(st, fr))
			sendReady = append(sendReady, e.sendReady(st, ch))
		}
	}
	sendIdx := 0
	for i, cc := range x.Body.List {
		cl := cc.(*ast.CommClause)
		br := st.clone()
		if i < n-1 {
			e.assume(br, fmt.Sprintf("(= %s %d)", choice, i))
		} else {
			e.assume(br, fmt.Sprintf("(>= %s %d)", choice, i))
		}
		saved := copyNames(fr)
		key := fmt.Sprintf("%d:%d", ord, i+1)
		if cl.Comm == nil {
			key = fmt.Sprintf("%d:default", ord)
			for _, rdy := range sendReady {
				e.assume(br, "(not "+rdy+")")
			}
		} else if _, ok := cl.Comm.(*ast.SendStmt); ok {
			e.assume(br, sendReady[sendIdx])
			sendIdx++
		}
		if cl.Comm != nil {
			if _, isSend := cl.Comm.(*ast.SendStmt); !isSend {
				// a blocking receive: time may pass, other threads may run
				e.advanceTime(br, "0")
				e.interfereAll(br, fr)
				f := e.stmt(cl.Comm, br, fr)
				br = f.norm
			} else {
				// the chosen send of a select is instantaneous (its readiness was assumed above)
				ss := cl.Comm.(*ast.SendStmt)
				e.eval(ss.Value, e.ctx(br, fr))
			}
		}
		if fr.top && fr.contract != nil {
			for _, as := range fr.contract.SelAsserts[key] {
				sc := &Ctx{st: br, fr: fr, spec: true, old: fr.entry}
				phi := e.evalCond(as.Expr, sc)
				if as.Mode == "assume" {
					e.assume(br, phi)
					continue
				}
				e.assert(br, fmt.Sprintf("%s#select%s[%s]", e.fnName, strings.ReplaceAll(key, ":", "."), as.Label), "assertion", phi, as.Text, e.prog.pos(cl), e.modelVars(br, fr))
			}
		}
		f := e.block(cl.Body, br, fr)
		restoreNames(fr, saved)
		norms = append(norms, f.norm)
		norms = append(norms, f.brk...)
		out.cont = append(out.cont, f.cont...)
		out.rets = append(out.rets, f.rets...)
	}
	e.vc.Fact(fmt.Sprintf("(>= %s 0)", choice))
	out.norm = e.merge(norms)
	return out
}

// sendReady: the condition under which a non-blocking send on ch can proceed: a buffered channel (capacity > 0) is
// assumed to have room; an unbuffered one needs a receiver parked on it right now.
func (e *Exec) sendReady(st *State, ch Term) string {
	e.vc.Decl("fun:parkedrecv", "(declare-fun parkedrecv (Int Int) Bool)")
	capArr := e.get(st, "H!$chan!cap", &Type{K: KGMap, Key: tInt, Elem: tInt})
	return fmt.Sprintf("(or (> (select %s %s) 0) (parkedrecv %s %s))", capArr.S, ch.S, ch.S, e.now(st).S)
}

// loopHavoc: what is arbitrary at the loop head. With a `loop N modifies` clause the heap part is exactly the listed
// targets (checked for one iteration by loopFrameCheck); otherwise the syntactic effects of the body.
func (e *Exec) loopHavoc(head *State, fr *Frame, eff *Effects, ord int) {
	if (fr.top || fr.hosted) && fr.contract != nil {
		if mods, ok := fr.contract.LoopMods[ord]; ok {
			for k, t := range eff.locals {
				if _, ok := head.vars[k]; ok {
					e.havocKey(head, k, t)
				}
			}
			for _, m := range mods {
				e.havocTarget(m, head, fr, nil)
			}
			if eff.time {
				e.advanceTime(head, "0")
			}
			// lock bookkeeping changes inside the body are balanced
			for k, t := range eff.heap {
				if strings.HasPrefix(k, "$held!") {
					e.havocKey(head, k, t)
				}
			}
			return
		}
	}
	e.havocEffects(head, fr, eff)
}

func (e *Exec) loopFrameCheck(head, after *State, fr *Frame, ord int, pos string) {
	if !(fr.top || fr.hosted) || fr.contract == nil {
		return
	}
	mods, ok := fr.contract.LoopMods[ord]
	if !ok {
		return
	}
	e.checkFrameAgainst(mods, head, []*State{after}, fr, fmt.Sprintf("loop%d-frame", ord), pos)
}

// isGlobalKey: ghost variables and the verifier's own global state (time, allocation, held locks): like heap keys they
// exist in every state, so a branch that did not touch them still has their (initial) value at a join.
func isGlobalKey(k string) bool {
	return strings.HasPrefix(k, "GV!") || k == "$now" || k == "$alloc" || strings.HasPrefix(k, "$held!")
}
