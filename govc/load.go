package main

import (
	"fmt"
	"go/ast"
	"go/token"
	"go/types"
	"os"
	"path/filepath"
	"regexp"
	"sort"
	"strings"

	"golang.org/x/tools/go/packages"
)

type FuncInfo struct {
	Obj  *types.Func
	Decl *ast.FuncDecl
	Pkg  *packages.Package
}

type Program struct {
	fset        *token.FileSet
	roots       []*packages.Package
	pkgs        map[string]*packages.Package
	funcs       map[string]*FuncInfo // by FullName of the origin
	contracts   map[string]*Contract // by key ("Type.Method", "pkg.Type.Method")
	allCon      []*Contract
	ghostFields map[string][]*GhostField
	ghostVars   map[string]*GhostVar
	ghostFuncs  map[string]*GhostFunc
	monitors    map[string]*Monitor // struct qualified name + "." + mutex field
	lemmas      []*Lemma
	axioms      []*Axiom
	pure        map[string]bool
	dropped     []string
	devirt      map[string]string
	cfiles      []*ContractFile
	moduleDirs  []string
	topPkgName  string // package of the function currently under verification (scopes trusted contracts)
	topPkgPath  string
}

func loadProgram(dir string, patterns []string, tags string) (*Program, error) {
	cfg := &packages.Config{
		Mode: packages.NeedName | packages.NeedFiles | packages.NeedSyntax | packages.NeedTypes |
			packages.NeedTypesInfo | packages.NeedImports | packages.NeedDeps | packages.NeedModule,
		Dir:        dir,
		BuildFlags: []string{"-tags=" + tags},
		Env:        append(os.Environ(), "GOFLAGS=-mod=mod", "GOPROXY=off", "GOSUMDB=off", "GOTOOLCHAIN=local"),
	}
	pkgs, err := packages.Load(cfg, patterns...)
	if err != nil {
		return nil, err
	}
	p := &Program{pkgs: map[string]*packages.Package{}, funcs: map[string]*FuncInfo{}, contracts: map[string]*Contract{},
		ghostFields: map[string][]*GhostField{}, ghostVars: map[string]*GhostVar{}, ghostFuncs: map[string]*GhostFunc{},
		monitors: map[string]*Monitor{}, pure: map[string]bool{}, devirt: map[string]string{}}
	p.roots = pkgs
	var errs []string
	packages.Visit(pkgs, nil, func(pk *packages.Package) {
		p.pkgs[pk.PkgPath] = pk
		if p.fset == nil && pk.Fset != nil {
			p.fset = pk.Fset
		}
		if pk.Module != nil && strings.HasPrefix(pk.PkgPath, "lunar/") {
			for _, e := range pk.Errors {
				errs = append(errs, e.Error())
			}
		}
	})
	if len(errs) > 0 {
		return nil, fmt.Errorf("package errors: %s", strings.Join(errs, "; "))
	}
	for _, pk := range p.pkgs {
		if pk.TypesInfo == nil {
			continue
		}
		for _, f := range pk.Syntax {
			for _, d := range f.Decls {
				fd, ok := d.(*ast.FuncDecl)
				if !ok || fd.Body == nil {
					continue
				}
				obj, ok := pk.TypesInfo.Defs[fd.Name].(*types.Func)
				if !ok {
					continue
				}
				p.funcs[obj.FullName()] = &FuncInfo{obj, fd, pk}
			}
		}
	}
	// contract files of every loaded lunar package
	var paths []string
	for path := range p.pkgs {
		paths = append(paths, path)
	}
	sort.Strings(paths)
	for _, path := range paths {
		pk := p.pkgs[path]
		if !strings.HasPrefix(path, "lunar/") {
			continue
		}
		for _, gf := range pk.GoFiles {
			if !strings.HasSuffix(filepath.Base(gf), "_contracts_verif.go") {
				continue
			}
			cf, err := parseContractFile(gf, pk.PkgPath, pk.Name)
			if err != nil {
				return nil, err
			}
			p.cfiles = append(p.cfiles, cf)
		}
	}
	for _, cf := range p.cfiles {
		pk := p.pkgs[cf.PkgPath]
		for _, c := range cf.Contracts {
			for _, k := range []string{c.Key, cf.PkgName + "." + c.Key} {
				if old, dup := p.contracts[k]; dup && old != c {
					if k != c.Key {
						return nil, fmt.Errorf("%s:%d: duplicate contract key %s (also %s:%d)", c.File, c.Line, k, old.File, old.Line)
					}
					continue // ambiguous short key: first one wins, qualified keys stay distinct
				}
				p.contracts[k] = c
			}
			p.allCon = append(p.allCon, c)
		}
		// a contract file of a package that is loaded only as a dependency may name types of packages that are not
		// loaded for this property: such ghost declarations are skipped (a contract that needs them cannot bind)
		isRoot := false
		for _, r := range p.roots {
			if r.PkgPath == cf.PkgPath {
				isRoot = true
			}
		}
		for _, g := range cf.GhostFields {
			t, err := p.parseGhostType(g.TypeS, pk)
			if err != nil {
				if !isRoot {
					continue
				}
				return nil, fmt.Errorf("%s: ghost field %s.%s: %v", cf.File, g.Struct, g.Name, err)
			}
			g.Type = t
			p.ghostFields[g.Struct] = append(p.ghostFields[g.Struct], g)
		}
		for _, g := range cf.GhostVars {
			t, err := p.parseGhostType(g.TypeS, pk)
			if err != nil {
				if !isRoot {
					continue
				}
				return nil, fmt.Errorf("%s: ghost var %s: %v", cf.File, g.Name, err)
			}
			g.Type = t
			p.ghostVars[g.Name] = g
		}
	ghostFuncs:
		for _, g := range cf.GhostFuncs {
			for _, ts := range g.PTypes {
				t, err := p.parseGhostType(ts, pk)
				if err != nil {
					if !isRoot {
						continue ghostFuncs
					}
					return nil, fmt.Errorf("%s: ghost func %s: %v", cf.File, g.Name, err)
				}
				g.PT = append(g.PT, t)
			}
			t, err := p.parseGhostType(g.RetS, pk)
			if err != nil {
				if !isRoot {
					continue
				}
				return nil, fmt.Errorf("%s: ghost func %s: %v", cf.File, g.Name, err)
			}
			g.Ret = t
			if prev, dup := p.ghostFuncs[g.Name]; dup && prev != g && prev.PkgPath != g.PkgPath && (prev.BodyS != g.BodyS || strings.Join(prev.PTypes, ",") != strings.Join(g.PTypes, ",")) {
				// ghost functions are global by name: a second, different definition would silently replace the first one in
				// the contracts of the other package
				return nil, fmt.Errorf("%s: ghost func %s is also defined in the contracts of %s (names of ghost functions are global: rename one)", cf.File, g.Name, prev.PkgPath)
			}
			p.ghostFuncs[g.Name] = g
		}
		for _, m := range cf.Monitors {
			k := m.Struct + "." + m.Mutex
			if old, ok := p.monitors[k]; ok {
				// a monitor may be declared in several blocks (one per property): merge
				if m.Self != "self" && old.Self != m.Self {
					return nil, fmt.Errorf("%s: monitor %s declared with different self names (%s, %s)", cf.File, k, old.Self, m.Self)
				}
				old.Protects = mergeStr(old.Protects, m.Protects)
				old.Inv = append(old.Inv, m.Inv...)
				old.Rely = append(old.Rely, m.Rely...)
				continue
			}
			p.monitors[k] = m
		}
		p.lemmas = append(p.lemmas, cf.Lemmas...)
		p.axioms = append(p.axioms, cf.Axioms...)
		for _, x := range cf.Pure {
			p.pure[x] = true
		}
		p.dropped = append(p.dropped, cf.Dropped...)
		for k, v := range cf.Devirt {
			p.devirt[k] = v
		}
	}
	return p, nil
}

var qualTypeRe = regexp.MustCompile(`^(\*?)(\w+)\.(\w+)(\[(.*)\])?$`)

func (p *Program) parseGhostType(s string, pk *packages.Package) (*Type, error) {
	s = strings.TrimSpace(s)
	if strings.HasPrefix(s, "gmap[") || strings.HasPrefix(s, "gset[") {
		d := 0
		j := -1
		for i := 4; i < len(s); i++ {
			if s[i] == '[' {
				d++
			} else if s[i] == ']' {
				d--
				if d == 0 {
					j = i
					break
				}
			}
		}
		if j < 0 {
			return nil, fmt.Errorf("bad ghost type %q", s)
		}
		k, err := p.parseGhostType(s[5:j], pk)
		if err != nil {
			return nil, err
		}
		if strings.HasPrefix(s, "gset[") {
			return &Type{K: KGMap, Key: k, Elem: tBool}, nil
		}
		el, err := p.parseGhostType(s[j+1:], pk)
		if err != nil {
			return nil, err
		}
		return &Type{K: KGMap, Key: k, Elem: el}, nil
	}
	if s == "real" {
		return tReal, nil
	}
	if strings.HasPrefix(s, "[]") {
		if el, err := p.parseGhostType(s[2:], pk); err == nil && el.G != nil {
			return p.TypeOf(types.NewSlice(el.G), nil), nil
		}
	}
	if strings.HasPrefix(s, "*map[") || strings.HasPrefix(s, "*[]") {
		if el, err := p.parseGhostType(s[1:], pk); err == nil && el.G != nil {
			return p.TypeOf(types.NewPointer(el.G), nil), nil
		}
	}
	if strings.HasPrefix(s, "map[") {
		d, j := 0, -1
		for i := 3; i < len(s); i++ {
			if s[i] == '[' {
				d++
			} else if s[i] == ']' {
				d--
				if d == 0 {
					j = i
					break
				}
			}
		}
		if j > 0 {
			k, err1 := p.parseGhostType(s[4:j], pk)
			v, err2 := p.parseGhostType(s[j+1:], pk)
			if err1 == nil && err2 == nil && k.G != nil && v.G != nil {
				return p.TypeOf(types.NewMap(k.G, v.G), nil), nil
			}
		}
	}
	if m := qualTypeRe.FindStringSubmatch(s); m != nil {
		// pkgname.Type[args] possibly unexported: resolve through the imported package's scope directly
		var ip *packages.Package
		var byName []*packages.Package
		for _, cand := range p.pkgs {
			if cand.Name == m[2] {
				byName = append(byName, cand)
				if _, imported := pk.Imports[cand.PkgPath]; imported || cand.PkgPath == pk.PkgPath {
					// several imported packages may share a package name (config, config): take one that declares the type
					if ip == nil || (ip.Types.Scope().Lookup(m[3]) == nil && cand.Types.Scope().Lookup(m[3]) != nil) {
						ip = cand
					}
				}
			}
		}
		if ip == nil && len(byName) == 1 {
			ip = byName[0] // a loaded package that the contract's package does not import itself
		}
		if ip == nil {
			// import alias used in the package's files
			for _, f := range pk.Syntax {
				for _, is := range f.Imports {
					if is.Name != nil && is.Name.Name == m[2] {
						path := strings.Trim(is.Path.Value, "\"")
						ip = p.pkgs[path]
					}
				}
			}
		}
		if ip != nil {
			if obj := ip.Types.Scope().Lookup(m[3]); obj != nil {
				var t types.Type = obj.Type()
				if m[5] != "" {
					named, ok := t.(*types.Named)
					if !ok {
						return nil, fmt.Errorf("%s is not generic", m[3])
					}
					var targs []types.Type
					for _, a := range splitTop(m[5], ',') {
						at, err := p.parseGhostType(a, pk)
						if err != nil {
							return nil, err
						}
						targs = append(targs, at.G)
					}
					it, err := types.Instantiate(nil, named, targs, false)
					if err != nil {
						return nil, err
					}
					t = it
				}
				if m[1] == "*" {
					t = types.NewPointer(t)
				}
				return p.TypeOf(t, nil), nil
			}
		}
	}
	if s == "time" {
		return &Type{K: KInt}, nil
	}
	tv, err := types.Eval(p.fset, pk.Types, token.NoPos, s)
	if err != nil {
		return nil, err
	}
	return p.TypeOf(tv.Type, nil), nil
}

// contractKeyOf returns the lookup keys of a function object: pkg.Type.Method, Type.Method / pkg.Func, Func.
func contractKeys(fn *types.Func) []string {
	name := fn.Name()
	pkgName := ""
	if fn.Pkg() != nil {
		pkgName = fn.Pkg().Name()
	}
	sig := fn.Type().(*types.Signature)
	if sig.Recv() != nil {
		rt := sig.Recv().Type()
		if ptr, ok := rt.(*types.Pointer); ok {
			rt = ptr.Elem()
		}
		rt = types.Unalias(rt)
		if n, ok := rt.(*types.Named); ok {
			tn := n.Obj().Name()
			tp := pkgName
			if n.Obj().Pkg() != nil {
				tp = n.Obj().Pkg().Name()
			}
			return []string{tp + "." + tn + "." + name, tn + "." + name}
		}
		return []string{name}
	}
	return []string{pkgName + "." + name, name}
}

// contractFor: the contract that applies to a call of fn from a function verified in package topPkg.
// Contracts of functions with bodies belong to the function's package. Trusted contracts (iface / extern / field) are
// scoped: the one written in the caller's package wins, then the one written in the callee's own package; a trusted
// contract written in an unrelated package is not used (each property states its own closed-world assumptions).
func (p *Program) contractFor(fn *types.Func) *Contract {
	c := p.contractFor0(fn)
	if os.Getenv("GOVC_DEBUG_CONTRACT") != "" && c != nil && c.Kind != "func" {
		fmt.Fprintf(os.Stderr, "contractFor %s (top %s) -> %s %s:%d\n", fn.FullName(), p.topPkgName, c.Kind, c.File, c.Line)
	}
	return c
}

func (p *Program) contractFor0(fn *types.Func) *Contract {
	keys := contractKeys(fn.Origin())
	short := keys[len(keys)-1]
	if p.topPkgName != "" {
		// trusted contracts declared in the contract file of the package under verification win over everybody else's
		for i := len(keys) - 1; i >= 0; i-- {
			if c, ok := p.contracts[p.topPkgName+"."+keys[i]]; ok && c.Kind != "func" && (p.topPkgPath == "" || c.PkgPath == p.topPkgPath) {
				return c
			}
		}
	}
	for _, k := range keys {
		c, ok := p.contracts[k]
		if !ok {
			continue
		}
		if c.Kind == "func" {
			if fn.Pkg() != nil && c.PkgPath != fn.Pkg().Path() {
				continue
			}
			return c
		}
		// trusted contract reached through a short or callee-qualified key
		if fn.Pkg() != nil && c.PkgPath == fn.Pkg().Path() {
			return c
		}
		if p.topPkgPath != "" && c.PkgPath == p.topPkgPath {
			return c
		}
		if k != short {
			return c
		}
	}
	return nil
}

func (p *Program) isPure(fn *types.Func) bool {
	for _, k := range contractKeys(fn.Origin()) {
		if p.pure[k] {
			return true
		}
	}
	return false
}

func (p *Program) pos(n ast.Node) string {
	if n == nil || p.fset == nil {
		return ""
	}
	ps := p.fset.Position(n.Pos())
	f := ps.Filename
	if i := strings.Index(f, "/proxy/src/"); i >= 0 {
		f = f[i+len("/proxy/src/"):]
	}
	return fmt.Sprintf("%s:%d", f, ps.Line)
}
