package main

// SMT layer: a VC context that accumulates declarations and (conservative)
// definitions, obligations that are each discharged by their own query, and a
// solver portfolio (z3 4.8.12, z3-new 5.1.0, cvc5) raced per obligation.

import (
	"bytes"
	"context"
	"fmt"
	"os"
	"os/exec"
	"path/filepath"
	"regexp"
	"sort"
	"strings"
	"sync"
	"time"
)

type VC struct {
	defOf    map[string]string
	decls    []string
	declared map[string]bool
	defs     []string // asserted facts that are conservative (definitions of fresh names, instances of true axioms)
	fresh    int
	strLits  map[string]string // literal -> const name
	strOrder []string
	smtStr   bool // use the SMT String theory for Go strings
	tags     map[string]int
	tagNames []string
	axioms   []vcAxiom // contract-file axioms: included in a query only when the symbols they talk about occur in it
}

type vcAxiom struct {
	text  string
	syms  []string
	label string
	def   bool // defining axiom of a spec function: relevance is transitive through other definitions
}

// UsedAxioms: labels of the axioms whose symbols occur somewhere in this VC.
func (v *VC) UsedAxioms() []string {
	all := strings.Join(v.defs, "\n")
	var out []string
	for _, ax := range v.axioms {
		use := true
		for _, sy := range ax.syms {
			if strings.HasPrefix(sy, "str!") {
				continue
			}
			if !strings.Contains(all, sy) {
				use = false
				break
			}
		}
		if use {
			out = append(out, ax.label)
		}
	}
	return out
}

var axSymRe = regexp.MustCompile(`(gf![A-Za-z0-9_!.]+|sprintf![A-Za-z0-9_!.]+|str![0-9]+|floormul)`)

func (v *VC) AddAxiom(term, label string) {
	seen := map[string]bool{}
	var syms []string
	for _, m := range axSymRe.FindAllString(term, -1) {
		if !seen[m] {
			seen[m] = true
			syms = append(syms, m)
		}
	}
	v.axioms = append(v.axioms, vcAxiom{text: fmt.Sprintf("(assert %s)", term), syms: syms, label: label})
}

var sfSymRe = regexp.MustCompile(`sf![A-Za-z0-9_]+`)

// AddSpecAxiom: the defining axiom of a spec function; relevant to a query when the function occurs in it (directly or
// through the definition of another relevant spec function).
func (v *VC) AddSpecAxiom(term, sym, label string) {
	v.axioms = append(v.axioms, vcAxiom{text: fmt.Sprintf("(assert %s)", term), syms: []string{sym}, label: label, def: true})
}

func NewVC(smtStrings bool) *VC {
	v := &VC{declared: map[string]bool{}, strLits: map[string]string{}, tags: map[string]int{}, smtStr: smtStrings}
	return v
}

func (v *VC) Decl(key, text string) {
	if v.declared[key] {
		return
	}
	v.declared[key] = true
	v.decls = append(v.decls, text)
}

var identRe = regexp.MustCompile(`[^A-Za-z0-9_!.$]`)

func mangle(s string) string {
	s = strings.ReplaceAll(s, "/", ".")
	s = strings.ReplaceAll(s, "*", "P.")
	s = strings.ReplaceAll(s, "[", "<")
	s = strings.ReplaceAll(s, "]", ">")
	s = strings.ReplaceAll(s, "(", "<")
	s = strings.ReplaceAll(s, ")", ">")
	s = strings.ReplaceAll(s, " ", "")
	s = strings.ReplaceAll(s, "<", "_l_")
	s = strings.ReplaceAll(s, ">", "_r_")
	return identRe.ReplaceAllString(s, "_")
}

// FreshConst declares a fresh constant of the given sort.
func (v *VC) FreshConst(base, sortS string) string {
	v.fresh++
	n := fmt.Sprintf("%s@%d", mangle(base), v.fresh)
	v.decls = append(v.decls, fmt.Sprintf("(declare-fun %s () %s)", n, sortS))
	return n
}

// Define introduces a fresh name for a term (conservative extension).
func (v *VC) Define(base, sortS, term string) string {
	n := v.FreshConst(base, sortS)
	v.defs = append(v.defs, fmt.Sprintf("(assert (= %s %s))", n, term))
	if v.defOf == nil {
		v.defOf = map[string]string{}
	}
	v.defOf[n] = term
	return n
}

// DefOf: the term a defined name abbreviates ("" if the name is not a definition).
func (v *VC) DefOf(n string) string { return v.defOf[n] }

// Fact asserts a formula that is valid in the intended model (an instance of
// an axiom of an uninterpreted symbol, e.g. unbox(box(x)) = x).
func (v *VC) Fact(term string) {
	v.defs = append(v.defs, fmt.Sprintf("(assert %s)", term))
}

func (v *VC) Tag(name string) int {
	if t, ok := v.tags[name]; ok {
		return t
	}
	t := len(v.tags) + 1
	v.tags[name] = t
	v.tagNames = append(v.tagNames, name)
	// ptrtag: the dynamic type is a pointer, map, channel or function type (its boxed value 0 is a nil of that type)
	isPtr := strings.HasPrefix(name, "*") || strings.HasPrefix(name, "map[") || strings.HasPrefix(name, "chan ") || strings.HasPrefix(name, "func(")
	v.Fact(fmt.Sprintf("(= (ptrtag %d) %v)", t, isPtr))
	return t
}

func smtStringLit(s string) string {
	var b strings.Builder
	b.WriteByte('"')
	for _, r := range s {
		switch {
		case r == '"':
			b.WriteString(`""`)
		case r < 32 || r > 126 || r == '\\':
			fmt.Fprintf(&b, `\u{%x}`, r)
		default:
			b.WriteRune(r)
		}
	}
	b.WriteByte('"')
	return b.String()
}

func (v *VC) StrLit(s string) string {
	if v.smtStr {
		return smtStringLit(s)
	}
	if n, ok := v.strLits[s]; ok {
		return n
	}
	n := fmt.Sprintf("str!%d", len(v.strLits))
	v.strLits[s] = n
	v.strOrder = append(v.strOrder, s)
	return n
}

func (v *VC) StrSort() string {
	if v.smtStr {
		return "String"
	}
	return "Str"
}

const preamble = `(define-fun godiv ((a Int) (b Int)) Int (ite (>= a 0) (ite (> b 0) (div a b) (- (div a (- b)))) (ite (> b 0) (- (div (- a) b)) (div (- a) (- b)))))
(define-fun gomod ((a Int) (b Int)) Int (- a (* b (godiv a b))))
(declare-datatypes ((Any 0)) (((A_nil) (A_box (a_tag Int) (a_val Int)))))
(declare-fun ceil! (Real) Real)
(declare-fun ptrtag (Int) Bool)
`

func (v *VC) header() string {
	var b strings.Builder
	b.WriteString("(set-option :produce-models true)\n(set-logic ALL)\n")
	if !v.smtStr {
		b.WriteString("(declare-sort Str 0)\n(declare-fun strlen (Str) Int)\n(declare-fun strcat (Str Str) Str)\n")
		for i, s := range v.strOrder {
			fmt.Fprintf(&b, "(declare-fun str!%d () Str) ; %q\n", i, s)
		}
		if len(v.strOrder) > 1 {
			b.WriteString("(assert (distinct")
			for i := range v.strOrder {
				fmt.Fprintf(&b, " str!%d", i)
			}
			b.WriteString("))\n")
		}
		for i, s := range v.strOrder {
			fmt.Fprintf(&b, "(assert (= (strlen str!%d) %d))\n", i, len(s))
		}
	}
	b.WriteString(preamble)
	return b.String()
}

type Obligation struct {
	Name    string            `json:"name"`
	Kind    string            `json:"kind"`
	Func    string            `json:"func"`
	Mode    string            `json:"mode,omitempty"`
	Pos     string            `json:"pos,omitempty"`
	Text    string            `json:"text,omitempty"`
	DefsLen int               `json:"-"`
	Disj    []string          `json:"-"`
	Model   map[string]string `json:"-"` // label -> smt term whose value is wanted in a counter-model
	ModelK  []string          `json:"-"`
	vc      *VC
	// expectation: "unsat" (a proof obligation) or "sat" (a vacuity / reachability guard)
	Expect string `json:"expect"`
	// result
	Result  string            `json:"result"`
	Backend string            `json:"backend,omitempty"`
	Seconds float64           `json:"seconds"`
	Values  map[string]string `json:"model,omitempty"`
	File    string            `json:"smt_file,omitempty"`
	Raw     string            `json:"-"`
	Extra   string            `json:"-"` // extra assertion conjoined (known-finding class exclusion)
}

func (o *Obligation) Query(extra string) string {
	v := o.vc
	var b strings.Builder
	b.WriteString(v.header())
	for _, d := range v.decls {
		b.WriteString(d)
		b.WriteByte('\n')
	}
	n := o.DefsLen
	if n > len(v.defs) {
		n = len(v.defs)
	}
	goal := strings.Join(o.Disj, " ") + " " + extra
	keep := make([]bool, n)
	if o.Expect == "sat" {
		for i := range keep {
			keep[i] = true
		}
	} else {
		// cone of influence: a definition of a fresh name nobody refers to, or a fact about such names only, is
		// dropped (fewer premises: sound); unused quantified definitions otherwise cost the solvers minutes
		rel := map[string]bool{}
		addSyms := func(t string) {
			for _, m := range symRe.FindAllString(t, -1) {
				rel[m] = true
			}
		}
		addSyms(goal)
		for _, k := range o.ModelK {
			addSyms(o.Model[k])
		}
		for changed := true; changed; {
			changed = false
			for i := n - 1; i >= 0; i-- {
				if keep[i] {
					continue
				}
				d := v.defs[i]
				if m := defRe.FindStringSubmatch(d); m != nil {
					if rel[m[1]] {
						keep[i], changed = true, true
						addSyms(d)
					}
					continue
				}
				syms := symRe.FindAllString(d, -1)
				use := len(syms) == 0
				for _, sy := range syms {
					if rel[sy] {
						use = true
						break
					}
				}
				if use {
					keep[i], changed = true, true
					addSyms(d)
				}
			}
		}
	}
	var body strings.Builder
	for i, d := range v.defs[:n] {
		if !keep[i] {
			continue
		}
		body.WriteString(d)
		body.WriteByte('\n')
	}
	bodyS := body.String()
	used := make([]bool, len(v.axioms))
	axText, plainAx := "", ""
	for changed := true; changed; {
		changed = false
		for i, ax := range v.axioms {
			if used[i] {
				continue
			}
			use := true
			for _, sy := range ax.syms {
				if strings.HasPrefix(sy, "str!") {
					continue // literals are always declared; they do not make an axiom relevant by themselves
				}
				if !containsSym(bodyS, sy) && !containsSym(goal, sy) && !containsSym(axText, sy) {
					use = false
					break
				}
			}
			if use {
				used[i], changed = true, true
				if ax.def {
					axText += ax.text + "\n"
				} else {
					plainAx += ax.text + "\n"
				}
			}
		}
	}
	b.WriteString(plainAx)
	b.WriteString(axText)
	b.WriteString(bodyS)
	if len(o.Disj) == 1 {
		fmt.Fprintf(&b, "(assert %s)\n", o.Disj[0])
	} else {
		b.WriteString("(assert (or")
		for _, d := range o.Disj {
			b.WriteString("\n  ")
			b.WriteString(d)
		}
		b.WriteString("))\n")
	}
	if extra != "" {
		fmt.Fprintf(&b, "(assert %s)\n", extra)
	}
	b.WriteString("(check-sat)\n")
	if len(o.ModelK) > 0 {
		b.WriteString("(get-value (")
		for _, k := range o.ModelK {
			b.WriteString(o.Model[k])
			b.WriteByte(' ')
		}
		b.WriteString("))\n")
	}
	return b.String()
}

var (
	symRe = regexp.MustCompile(`[^\s()]+@\d+`)
	defRe = regexp.MustCompile(`^\(assert \(= ([^\s()]+@\d+) `)
)

type Solver struct {
	Name string
	Args func(file string, timeoutS int) []string
}

var solvers = []Solver{
	{"z3-new", func(f string, t int) []string { return []string{"z3-new", fmt.Sprintf("-T:%d", t), f} }},
	{"z3", func(f string, t int) []string { return []string{"z3", fmt.Sprintf("-T:%d", t), f} }},
	{"cvc5", func(f string, t int) []string {
		return []string{"cvc5", "--produce-models", fmt.Sprintf("--tlimit=%d", t*1000), f}
	}},
}

type solveResult struct {
	res, backend, raw string
	secs              float64
}

// runPortfolio races the solvers; the first definite answer (sat/unsat) wins.
func runPortfolio(file string, timeoutS int, which []string) solveResult {
	ctx, cancel := context.WithTimeout(context.Background(), time.Duration(timeoutS+2)*time.Second)
	defer cancel()
	type r struct {
		solveResult
		definite bool
	}
	ch := make(chan r, len(solvers))
	n := 0
	t0 := time.Now()
	for _, s := range solvers {
		if len(which) > 0 {
			ok := false
			for _, w := range which {
				if w == s.Name {
					ok = true
				}
			}
			if !ok {
				continue
			}
		}
		n++
		go func(s Solver) {
			args := s.Args(file, timeoutS)
			cmd := exec.CommandContext(ctx, args[0], args[1:]...)
			var out bytes.Buffer
			cmd.Stdout = &out
			cmd.Stderr = &out
			_ = cmd.Run()
			txt := out.String()
			first := strings.TrimSpace(strings.SplitN(txt, "\n", 2)[0])
			rr := r{solveResult{first, s.Name, txt, time.Since(t0).Seconds()}, first == "sat" || first == "unsat"}
			ch <- rr
		}(s)
	}
	var last r
	var all []string
	for i := 0; i < n; i++ {
		x := <-ch
		all = append(all, x.backend+":"+x.res)
		if x.definite {
			cancel()
			return x.solveResult
		}
		last = x
	}
	sort.Strings(all)
	res := "unknown"
	joined := strings.Join(all, " ")
	if strings.Contains(joined, "timeout") {
		res = "timeout"
	}
	if strings.Count(joined, "(error") >= n {
		// every solver rejected the query: a defect of the VC generator, not a verdict
		return solveResult{"error", "all", truncate(last.raw, 300), time.Since(t0).Seconds()}
	}
	var short []string
	for _, a := range all {
		short = append(short, truncate(a, 40))
	}
	return solveResult{res, strings.Join(short, ","), last.raw, time.Since(t0).Seconds()}
}

var valRe = regexp.MustCompile(`\(\s*([^\s()]+|\([^()]*\)|\|[^|]*\|)\s+(.*)\)\s*$`)

// parseValues parses the (get-value ...) answer loosely: one "(term value)" per line.
func parseValues(raw string, o *Obligation) map[string]string {
	out := map[string]string{}
	lines := strings.Split(raw, "\n")
	if len(lines) < 2 {
		return out
	}
	body := strings.Join(lines[1:], "\n")
	// strip outer parens
	body = strings.TrimSpace(body)
	if strings.HasPrefix(body, "(") {
		body = body[1:]
	}
	// tokenise top-level s-expressions
	var items []string
	depth := 0
	start := -1
	inq := false
	for i := 0; i < len(body); i++ {
		c := body[i]
		if c == '"' {
			inq = !inq
		}
		if inq {
			continue
		}
		if c == '(' {
			if depth == 0 {
				start = i
			}
			depth++
		} else if c == ')' {
			depth--
			if depth == 0 && start >= 0 {
				items = append(items, body[start:i+1])
				start = -1
			}
		}
	}
	for i, it := range items {
		if i >= len(o.ModelK) {
			break
		}
		k := o.ModelK[i]
		term := o.Model[k]
		inner := strings.TrimSpace(it[1 : len(it)-1])
		val := strings.TrimSpace(strings.TrimPrefix(inner, term))
		if !strings.HasPrefix(inner, term) {
			// fall back: last token / sexpr
			val = inner
		}
		out[k] = val
	}
	return out
}

// Discharge runs all obligations with a worker pool.
func Discharge(obs []*Obligation, outDir string, timeoutS int, workers int) {
	_ = os.MkdirAll(outDir, 0o755)
	var wg sync.WaitGroup
	sem := make(chan struct{}, workers)
	for i, o := range obs {
		wg.Add(1)
		sem <- struct{}{}
		go func(i int, o *Obligation) {
			defer wg.Done()
			defer func() { <-sem }()
			solveOne(o, outDir, timeoutS)
		}(i, o)
	}
	wg.Wait()
}

func solveOne(o *Obligation, outDir string, timeoutS int) {
	fn := filepath.Join(outDir, mangle(o.Name)+".smt2")
	if len(fn) > 240 {
		fn = fn[:230] + ".smt2"
	}
	q := o.Query(o.Extra)
	_ = os.WriteFile(fn, []byte(q), 0o644)
	o.File = fn
	if o.Expect == "sat" && timeoutS > 6 {
		timeoutS = 6 // reachability guards: a quick sat answer or "not refuted"
	}
	r := runPortfolio(fn, timeoutS, nil)
	o.Result, o.Backend, o.Seconds, o.Raw = r.res, r.backend, r.secs, r.raw
	if r.res == "sat" && len(o.ModelK) > 0 {
		o.Values = parseValues(r.raw, o)
	}
}

// containsSym: sy occurs in text as a whole symbol (sf!ok is not found inside sf!okay).
func containsSym(text, sy string) bool {
	for off := 0; ; {
		i := strings.Index(text[off:], sy)
		if i < 0 {
			return false
		}
		j := off + i + len(sy)
		if j >= len(text) || text[j] == ' ' || text[j] == ')' || text[j] == '\n' {
			return true
		}
		off = j
	}
}
