package main

import (
	"fmt"
	"go/ast"
	"go/types"
	"sort"
	"strings"
)

type FuncReport struct {
	Func      string            `json:"func"`
	File      string            `json:"file"`
	Contract  string            `json:"contract"`
	Modes     []string          `json:"modes"`
	Dropped   []string          `json:"dropped_by_extraction,omitempty"`
	Externs   []string          `json:"externs,omitempty"`
	Inlined   []string          `json:"inlined,omitempty"`
	Havocs    []string          `json:"havocked_calls,omitempty"`
	Notes     []string          `json:"notes,omitempty"`
	Assumes   []string          `json:"assumes,omitempty"`
	Key       string            `json:"-"` // contract key, as it appears in #pre[<key>:...] obligations of callers
	Requires  []string          `json:"-"` // the requires clauses (label: text)
	Errors    []string          `json:"errors,omitempty"`
	Observe   map[string]string `json:"-"`
	NumObs    int               `json:"obligations"`
	obs       []*Obligation
	ToolError bool `json:"tool_error,omitempty"`
}

func keysOf(m map[string]bool) []string {
	var out []string
	for k := range m {
		out = append(out, k)
	}
	sort.Strings(out)
	return out
}

func (p *Program) findFunc(ct *Contract) *FuncInfo {
	for _, fi := range p.funcs {
		if fi.Pkg.PkgPath != ct.PkgPath {
			continue
		}
		for _, k := range contractKeys(fi.Obj) {
			if k == ct.Key || k == ct.PkgName+"."+ct.Key {
				return fi
			}
		}
	}
	return nil
}

// funcLitTarget resolves "Outer.funcN": the N-th function literal inside Outer.
func (p *Program) findFuncLit(ct *Contract) (*FuncInfo, *ast.FuncLit) {
	idx := strings.LastIndex(ct.Key, ".func")
	if idx < 0 {
		return nil, nil
	}
	var n int
	if _, err := fmt.Sscanf(ct.Key[idx+5:], "%d", &n); err != nil {
		return nil, nil
	}
	outer := *ct
	outer.Key = ct.Key[:idx]
	fi := p.findFunc(&outer)
	if fi == nil {
		return nil, nil
	}
	var found *ast.FuncLit
	k := 0
	ast.Inspect(fi.Decl.Body, func(x ast.Node) bool {
		if fl, ok := x.(*ast.FuncLit); ok {
			k++
			if k == n && found == nil {
				found = fl
			}
		}
		return true
	})
	return fi, found
}

func loopOrdinals(body *ast.BlockStmt) map[ast.Node]int {
	m := map[ast.Node]int{}
	n := 0
	ns := 0
	ast.Inspect(body, func(x ast.Node) bool {
		switch x.(type) {
		case *ast.SelectStmt:
			ns++
			m[x] = ns
		case *ast.ForStmt, *ast.RangeStmt:
			n++
			m[x] = n
		case *ast.FuncLit:
			return false
		}
		return true
	})
	return m
}

// VerifyFunc generates the obligations of one function under contract.
func (p *Program) VerifyFunc(ct *Contract) *FuncReport {
	rep := &FuncReport{Func: ct.PkgName + "." + ct.Key, Contract: fmt.Sprintf("%s:%d", shortFile(ct.File), ct.Line), Assumes: ct.Assumes}
	rep.Key = ct.Key
	for _, rq := range ct.Requires {
		rep.Requires = append(rep.Requires, fmt.Sprintf("[%s] %s", rq.Label, rq.Text))
	}
	fi := p.findFunc(ct)
	var lit *ast.FuncLit
	if fi == nil {
		fi, lit = p.findFuncLit(ct)
		if lit == nil {
			fi = nil
		}
	}
	if fi == nil {
		rep.Errors = append(rep.Errors, fmt.Sprintf("contract target %s not found in %s", ct.Target, ct.PkgPath))
		rep.ToolError = true
		return rep
	}
	rep.File = p.pos(fi.Decl)
	rep.Observe = ct.Observe
	p.topPkgName, p.topPkgPath = ct.PkgName, ct.PkgPath
	modes := []string{"seq"}
	if ct.Mode == "conc" {
		modes = []string{"conc"}
	}
	for i := 0; i < len(modes); i++ {
		mode := modes[i]
		e := NewExec(p, ct.SMTStr)
		e.mode = mode
		e.fnName = rep.Func
		e.topCon = ct
		e.run(ct, fi, lit)
		rep.Modes = append(rep.Modes, mode)
		rep.obs = append(rep.obs, e.obs...)
		for _, l := range e.vc.UsedAxioms() {
			e.externs["axiom["+l+"] "+e.axiomText[l]] = true
		}
		rep.Dropped = mergeStr(rep.Dropped, keysOf(e.dropped))
		rep.Externs = mergeStr(rep.Externs, keysOf(e.externs))
		rep.Inlined = mergeStr(rep.Inlined, keysOf(e.inlined))
		rep.Havocs = mergeStr(rep.Havocs, keysOf(e.havocs))
		rep.Notes = mergeStr(rep.Notes, e.notes)
		rep.Errors = mergeStr(rep.Errors, e.errors)
		if mode == "seq" && e.usedMonitor && ct.Mode != "seq" {
			modes = append(modes, "conc")
		}
	}
	if len(rep.Errors) > 0 {
		rep.ToolError = true
	}
	rep.NumObs = len(rep.obs)
	return rep
}

func mergeStr(a, b []string) []string {
	seen := map[string]bool{}
	for _, x := range a {
		seen[x] = true
	}
	for _, x := range b {
		if !seen[x] {
			seen[x] = true
			a = append(a, x)
		}
	}
	return a
}

func (e *Exec) run(ct *Contract, fi *FuncInfo, lit *ast.FuncLit) {
	p := e.prog
	subst := map[*types.TypeParam]types.Type{}
	sig := fi.Obj.Type().(*types.Signature)
	bindTP := func(tps *types.TypeParamList) {
		if tps == nil {
			return
		}
		for i := 0; i < tps.Len(); i++ {
			tp := tps.At(i)
			if ts, ok := ct.Inst[tp.Obj().Name()]; ok {
				tv, err := types.Eval(p.fset, fi.Pkg.Types, 0, ts)
				if err == nil {
					subst[tp] = tv.Type
				} else if gt, err2 := p.parseGhostType(ts, fi.Pkg); err2 == nil && gt.G != nil {
					// a type of a package this one does not import (pkgname.Type of another loaded package)
					subst[tp] = gt.G
				} else {
					e.errorf("instantiate %s=%s: %v", tp.Obj().Name(), ts, err)
				}
			}
		}
	}
	bindTP(sig.RecvTypeParams())
	bindTP(sig.TypeParams())
	fr := e.newFrame(fi, nil, subst)
	fr.top = true
	fr.contract = ct
	st := &State{pc: "true", vars: map[string]Term{}}
	e.emitAxioms()
	var body *ast.BlockStmt
	var ftype *ast.FuncType
	var recvList *ast.FieldList
	if lit != nil {
		body, ftype = lit.Body, lit.Type
		// free variables of the literal (captured locals of the enclosing function) are unconstrained
	} else {
		body, ftype, recvList = fi.Decl.Body, fi.Decl.Type, fi.Decl.Recv
	}
	fr.loopOrd = loopOrdinals(body)
	for n, o := range ct.LoopRemap {
		if _, own := fr.loopOrd[n]; own {
			fr.loopOrd[n] = o
		}
	}
	e.callOrd = callOrdinals(body)
	// symbolic receiver and parameters
	var recv *Term
	if recvList != nil && len(recvList.List) > 0 && sig.Recv() != nil {
		rt := p.TypeOf(sig.Recv().Type(), subst)
		r := Term{e.vc.FreshConst("recv", e.Sort(rt)), rt}
		recv = &r
		if rt.K == KRef {
			e.assume(st, fmt.Sprintf("(> %s 0)", r.S))
		}
	}
	var args []Term
	params := sig.Params()
	if lit != nil {
		params = p.sigOfLit(fi, lit).Params()
	}
	for i := 0; i < params.Len(); i++ {
		t := p.TypeOf(params.At(i).Type(), subst)
		v := Term{e.vc.FreshConst("arg_"+params.At(i).Name(), e.Sort(t)), t}
		args = append(args, v)
		e.typeInv(st, v)
	}
	e.bindParams(fr, ftype, recvList, st, recv, args)
	if lit != nil {
		// captured variables: declare every local of the enclosing function that the literal mentions
		e.declareCaptured(fr, fi, lit, st)
	}
	// positional aliases
	if len(ct.Params) > 0 {
		i := 0
		for _, f := range ftype.Params.List {
			for _, n := range f.Names {
				if i < len(ct.Params) {
					if k, ok := fr.names[n.Name]; ok {
						fr.names[ct.Params[i]] = k
						fr.ntypes[ct.Params[i]] = fr.ntypes[n.Name]
					}
				}
				i++
			}
		}
	}
	// initial ghost/time state
	e.now(st)
	pre := st.clone()
	for _, rq := range ct.Requires {
		sc := &Ctx{st: st, fr: fr, spec: true, old: pre}
		e.assume(st, e.evalCond(rq.Expr, sc))
	}
	// old(...) and the frame refer to the state in which the function is called: ghost updates `on entry` are part of
	// what the function does
	fr.entry = st.clone()
	for _, a := range ct.OnEntry {
		sc := &Ctx{st: st, fr: fr, spec: true, old: pre}
		e.assign(a.LHS, e.eval(a.RHS, sc), sc)
	}
	e.reach(st, e.fnName+"#reach.entry", p.pos(fi.Decl))
	fl := e.block(body.List, st, fr)
	rets := fl.rets
	if !fl.norm.dead() {
		r := &Ret{st: fl.norm}
		for i, k := range fr.resKeys {
			if k != "" {
				r.vals = append(r.vals, e.get(fl.norm, k, fr.resTypes[i]))
			} else {
				r.vals = append(r.vals, e.Zero(fr.resTypes[i]))
			}
		}
		rets = append(rets, r)
	}
	for _, r := range rets {
		e.finishReturn(r, fr)
	}
	for _, r := range rets {
		bound := e.resultBindings(ct, fr, r)
		for _, en := range ct.Ensures {
			if en.Mode == "seq" && e.mode == "conc" {
				continue
			}
			if en.Mode == "conc" && e.mode == "seq" {
				continue
			}
			sc := &Ctx{st: r.st, fr: fr, spec: true, bound: bound, old: fr.entry}
			phi := e.evalCond(en.Expr, sc)
			name := fmt.Sprintf("%s#ensures[%s]", e.fnName, en.Label)
			mv := e.modelVars(r.st, fr)
			e.assert(r.st, name, "postcondition", phi, en.Text, fmt.Sprintf("%s:%d", shortFile(en.File), en.Line), mv)
		}
	}
	for _, k := range ct.TempKinds {
		if e.allocKinds[k] {
			delete(e.allocKinds, k)
			e.externs["temporary allocation ("+k+") in "+ct.Key+" assumed not to escape (temporaries clause)"] = true
		}
	}
	if ct.Allocs && len(ct.AllocT) > 0 {
		// the declared allocation kinds must cover what the body (and its callees) allocates
		decl := map[string]bool{}
		for _, k := range ct.AllocT {
			decl[k] = true
		}
		for _, k := range keysOf(e.allocKinds) {
			if decl["any"] {
				break
			}
			if !decl[k] {
				if k == "cell" || k == "map" {
					// temporaries (an address-of cell, a scratch map): noted, not an error - callers are told nothing about
					// them, which is sound as long as they do not escape through a result (assumption, listed in the evidence)
					e.note("contract of %s: allocates a %s that its allocates clause does not list (treated as a temporary)", ct.Key, k)
					e.externs["undeclared temporary allocation ("+k+") in "+ct.Key+" assumed not to escape"] = true
					continue
				}
				e.errorf("contract of %s: allocates clause does not list kind %q", ct.Key, k)
			}
		}
	} else if ct.HasMod && !ct.Allocs && len(e.allocKinds) > 0 {
		var hard []string
		for _, k := range keysOf(e.allocKinds) {
			if k == "cell" || k == "map" {
				e.note("contract of %s: allocates a %s but has no allocates clause (treated as a temporary)", ct.Key, k)
				e.externs["undeclared temporary allocation ("+k+") in "+ct.Key+" assumed not to escape"] = true
				continue
			}
			hard = append(hard, k)
		}
		if len(hard) > 0 {
			e.errorf("contract of %s: the function allocates %v but has no allocates clause (callers would not see the new objects)", ct.Key, hard)
		}
	}
	if ct.HasMod && e.mode == "seq" {
		// (in concurrent mode protected state changes by interference at every acquire; the frame is a sequential notion)
		e.checkFrame(ct, fi, fr, rets)
	}
	if len(e.spawns) > 0 {
		e.runSpawns(ct, fr)
	}
	if len(rets) > 0 || len(ct.Ensures) > 0 {
		// canary: some return must be reachable, otherwise the assumptions exclude everything
		if hasLoopForever(body) && len(rets) == 0 {
			// a function that never returns (server loop): reachability is checked at its loop instead
		} else {
			for _, r := range rets {
				e.reach(r.st, e.fnName+"#reach.return", p.pos(fi.Decl))
			}
			if len(rets) == 0 {
				e.reach(nil, e.fnName+"#reach.return", p.pos(fi.Decl))
			}
		}
	}
}

func hasLoopForever(body *ast.BlockStmt) bool {
	for _, s := range body.List {
		if f, ok := s.(*ast.ForStmt); ok && f.Cond == nil {
			return true
		}
	}
	return false
}

func (p *Program) sigOfLit(fi *FuncInfo, lit *ast.FuncLit) *types.Signature {
	if tv, ok := fi.Pkg.TypesInfo.Types[lit]; ok {
		if s, ok := tv.Type.(*types.Signature); ok {
			return s
		}
	}
	return types.NewSignatureType(nil, nil, nil, nil, nil, false)
}

func (e *Exec) declareCaptured(fr *Frame, fi *FuncInfo, lit *ast.FuncLit, st *State) {
	info := fi.Pkg.TypesInfo
	ast.Inspect(lit.Body, func(x ast.Node) bool {
		id, ok := x.(*ast.Ident)
		if !ok {
			return true
		}
		v, ok := info.Uses[id].(*types.Var)
		if !ok || v.IsField() || v.Pkg() == nil || v.Parent() == v.Pkg().Scope() {
			return true
		}
		if v.Pos() >= lit.Pos() && v.Pos() <= lit.End() {
			return true
		}
		k := e.keyOf(v)
		if _, done := st.vars[k]; done {
			return true
		}
		t := e.prog.TypeOf(v.Type(), fr.subst)
		val := Term{e.vc.FreshConst("cap_"+v.Name(), e.Sort(t)), t}
		e.typeInv(st, val)
		e.declare(fr, v, st, val)
		return true
	})
}

// typeInv assumes what the Go type guarantees for a symbolic value.
func (e *Exec) typeInv(st *State, v Term) {
	e.refInv(st, v, 0)
	switch v.T.K {
	case KSlice:
		e.assume(st, fmt.Sprintf("(>= %s 0)", e.seqLen(v)))
	case KInt:
		if v.T.G != nil {
			if b, ok := v.T.G.Underlying().(*types.Basic); ok && b.Info()&types.IsUnsigned != 0 {
				e.assume(st, fmt.Sprintf("(>= %s 0)", v.S))
			}
		}
	}
}

func (e *Exec) emitAxioms() {
	if e.axiomsDone {
		return
	}
	e.axiomsDone = true
	for _, ax := range e.prog.axioms {
		pk := e.prog.pkgs[ax.PkgPath]
		cfr := &Frame{pkg: pk, names: map[string]string{}, ntypes: map[string]*Type{}, closures: map[string]*ast.FuncLit{}}
		if pk != nil {
			cfr.info = pk.TypesInfo
		}
		st := &State{pc: "true", vars: map[string]Term{}}
		sc := &Ctx{st: st, fr: cfr, spec: true}
		phi := e.evalCond(ax.Expr, sc)
		e.vc.AddAxiom(phi, ax.Label)
		e.axiomText[ax.Label] = ax.Text
	}
}

// VerifyLemma: a standalone VC over ghost functions / spec-level terms.
func (p *Program) VerifyLemma(l *Lemma) *FuncReport {
	pk := p.pkgs[l.PkgPath]
	rep := &FuncReport{Func: pk.Name + ".lemma[" + l.Label + "]", Contract: fmt.Sprintf("%s:%d", shortFile(l.File), l.Line), Modes: []string{"seq"}}
	e := NewExec(p, false)
	e.mode = "seq"
	e.fnName = rep.Func
	e.emitAxioms()
	fr := &Frame{pkg: pk, info: pk.TypesInfo, names: map[string]string{}, ntypes: map[string]*Type{}, closures: map[string]*ast.FuncLit{}, top: true}
	st := &State{pc: "true", vars: map[string]Term{}}
	bound := map[string]Term{}
	for i, v := range l.Vars {
		t, err := p.parseGhostType(l.VTypes[i], pk)
		if err != nil {
			rep.Errors = append(rep.Errors, err.Error())
			rep.ToolError = true
			return rep
		}
		val := Term{e.vc.FreshConst("lv_"+v, e.Sort(t)), t}
		e.typeInv(st, val)
		bound[v] = val
		k := "lv!" + v
		st.vars[k] = val
		fr.names[v] = k
		fr.ntypes[v] = t
	}
	fr.entry = st.clone()
	for _, rq := range l.Requires {
		sc := &Ctx{st: st, fr: fr, spec: true, bound: bound, old: fr.entry}
		e.assume(st, e.evalCond(rq.Expr, sc))
	}
	e.reach(st, rep.Func+"#reach.entry", rep.Contract)
	for _, en := range l.Ensures {
		sc := &Ctx{st: st, fr: fr, spec: true, bound: bound, old: fr.entry}
		phi := e.evalCond(en.Expr, sc)
		e.assert(st, fmt.Sprintf("%s#ensures[%s]", rep.Func, en.Label), "lemma", phi, en.Text, fmt.Sprintf("%s:%d", shortFile(en.File), en.Line), e.modelVars(st, fr))
	}
	rep.obs = e.obs
	rep.NumObs = len(e.obs)
	rep.Errors = e.errors
	for _, l := range e.vc.UsedAxioms() {
		e.externs["axiom["+l+"] "+e.axiomText[l]] = true
	}
	rep.Externs = keysOf(e.externs)
	if len(rep.Errors) > 0 {
		rep.ToolError = true
	}
	return rep
}

// checkFrame: every heap location that differs between entry and a return state must be covered by the
// contract's modifies clause (object granularity for x.f, row granularity for mapof(x.f)).
func (e *Exec) checkFrame(ct *Contract, fi *FuncInfo, fr *Frame, rets []*Ret) {
	var finals []*State
	for _, r := range rets {
		finals = append(finals, r.st)
	}
	e.checkFrameAgainst(ct.Modifies, fr.entry, finals, fr, "frame", shortFile(ct.File))
}

// runSpawns verifies every goroutine started by the function: started from an arbitrary later state it may only
// modify what the contract's `spawn modifies` clause lists (and must keep the monitor invariants it touches).
func (e *Exec) runSpawns(ct *Contract, fr *Frame) {
	spawns := e.spawns
	e.spawns = nil
	for i, sp := range spawns {
		st := sp.st.clone()
		e.havocAll(st)
		for k, v := range st.vars {
			if strings.HasPrefix(k, "GV!") {
				e.havocKey(st, k, v.T)
			}
			if strings.HasPrefix(k, "$held!") {
				delete(st.vars, k)
			}
		}
		e.advanceTime(st, "0")
		entry := st.clone()
		e.inSpawn = true
		savedSafety := e.safety
		e.safety = false
		e.call(sp.call, e.ctx(st, sp.fr), 0)
		e.safety = savedSafety
		e.inSpawn = false
		if e.mode == "seq" {
			e.checkFrameAgainst(ct.SpawnMod, entry, []*State{st}, sp.fr, fmt.Sprintf("spawn%d-frame", i+1), sp.pos)
		}
	}
}

func (e *Exec) checkFrameAgainst(mods []ast.Expr, entry *State, finals []*State, fr *Frame, kind, where string) {
	type allow struct {
		whole bool
		objs  []string
	}
	allowed := map[string]*allow{}
	get := func(k string) *allow {
		if allowed[k] == nil {
			allowed[k] = &allow{}
		}
		return allowed[k]
	}
	timeOK, allOK := false, false
	if kind != "frame" {
		timeOK = true
	}
	sc := &Ctx{st: entry, fr: fr, spec: true, old: entry}
	for _, m := range mods {
		switch x := m.(type) {
		case *ast.Ident:
			switch {
			case x.Name == "heap":
				allOK = true
			case x.Name == "now":
				timeOK = true
			default:
				if g, ok := e.prog.ghostVars[x.Name]; ok {
					get("GV!" + g.Name).whole = true
				}
			}
		case *ast.SelectorExpr:
			base := e.eval(x.X, sc)
			if path := e.findField(base.T, x.Sel.Name, 0); path != nil && base.T.K == KRef {
				a := get(heapKey(base.T.Name, path[0].Name))
				a.objs = append(a.objs, base.S)
			}
		case *ast.StarExpr:
			// `modifies *p`: the cell p points to (the same as cell(p))
			pv := e.eval(x.X, sc)
			if pv.T.K == KRef && pv.T.Name == "" {
				a := get("P!" + mangle(e.Sort(pv.T.Elem)))
				a.objs = append(a.objs, pv.S)
			}
		case *ast.CallExpr:
			id, _ := x.Fun.(*ast.Ident)
			switch {
			case id != nil && id.Name == "now":
				timeOK = true
			case id != nil && id.Name == "heap":
				allOK = true
			case id != nil && id.Name == "mapof":
				mv := e.eval(x.Args[0], sc)
				if mv.T.K == KMap {
					for _, k := range []string{"MD!" + mapKeyName(e, mv.T), "MV!" + mapKeyName(e, mv.T)} {
						a := get(k)
						a.objs = append(a.objs, mv.S)
					}
				}
			case id != nil && id.Name == "allof":
				if se, ok := x.Args[0].(*ast.SelectorExpr); ok {
					t := e.specType(se.X, sc)
					if path := e.findField(t, se.Sel.Name, 0); path != nil {
						get(heapKey(t.Name, path[0].Name)).whole = true
					}
				}
			case id != nil && id.Name == "smapof":
				so, fld := e.syncMapOwner(x.Args[0], sc)
				for _, k := range []string{"SM!" + fld + "!dom", "SM!" + fld + "!val"} {
					a := get(k)
					a.objs = append(a.objs, so.S)
				}
			case id != nil && id.Name == "opof":
				so, fld := e.syncMapOwner(x.Args[0], sc)
				a := get("OP!" + fld)
				a.objs = append(a.objs, so.S)
			case id != nil && id.Name == "cell":
				pv := e.eval(x.Args[0], sc)
				if pv.T.K == KRef && pv.T.Name == "" {
					a := get("P!" + mangle(e.Sort(pv.T.Elem)))
					a.objs = append(a.objs, pv.S)
				}
			case id != nil && id.Name == "ovof":
				so, fld := e.syncMapOwner(x.Args[0], sc)
				a := get("OV!" + fld)
				a.objs = append(a.objs, so.S)
			case id != nil && id.Name == "opall":
				// opall(T.f): the counters of field f of every T
				if se, ok := x.Args[0].(*ast.SelectorExpr); ok {
					t := e.specType(se.X, sc)
					get("OP!" + t.Name + "!" + se.Sel.Name).whole = true
				}
			}
		}
	}
	if allOK {
		return
	}
	al := e.get(entry, "$alloc", &Type{K: KGMap, Key: tInt, Elem: tBool})
	entryEpoch := ""
	if ep, ok := entry.vars["$epoch"]; ok {
		entryEpoch = ep.S
	}
	for _, rst := range finals {
		r := struct{ st *State }{rst}
		if r.st.dead() {
			continue
		}
		curEpoch := ""
		if ep, ok := r.st.vars["$epoch"]; ok {
			curEpoch = ep.S
		}
		if curEpoch != entryEpoch {
			hv := "true"
			if t, ok := r.st.vars["$hv"]; ok {
				hv = t.S
			}
			if eh, ok := entry.vars["$hv"]; ok && eh.S == hv {
				hv = "true" // havocked before the entry state already: no path information, be conservative
			}
			e.assert(r.st, e.fnName+"#"+kind+"[heap]", "frame", "(not "+hv+")", "a call without a frame havocked the heap but the contract does not say `modifies heap`", where, nil)
			if hv == "true" {
				continue
			}
		}
		var keys []string
		for k := range r.st.vars {
			keys = append(keys, k)
		}
		sort.Strings(keys)
		for _, k := range keys {
			v := r.st.vars[k]
			if k == "$now" {
				if !timeOK {
					ev := e.get(entry, k, v.T)
					if ev.S != v.S {
						e.assert(r.st, e.fnName+"#"+kind+"[now]", "frame", fmt.Sprintf("(= %s %s)", v.S, ev.S), "time advances but the contract does not say `modifies now`", where, nil)
					}
				}
				continue
			}
			if !isHeapKey(k) && !strings.HasPrefix(k, "GV!") {
				continue
			}
			if strings.HasPrefix(k, "GV!") && fr.contract != nil && fr.contract.isGhostLocal(strings.TrimPrefix(k, "GV!")) {
				continue // a ghost local of this activation: invisible to callers
			}
			ev := e.get(entry, k, v.T)
			if ev.S == v.S {
				continue
			}
			a := allowed[k]
			if a != nil && a.whole {
				continue
			}
			name := fmt.Sprintf("%s#%s[%s]", e.fnName, kind, strings.TrimPrefix(shortKey(k), "!"))
			if strings.HasPrefix(k, "GV!") || strings.HasPrefix(k, "G!") {
				e.assert(r.st, name, "frame", fmt.Sprintf("(= %s %s)", v.S, ev.S), "modified but not in the modifies clause", where, nil)
				continue
			}
			// arrays indexed by object: all objects that were allocated at entry and are not listed keep their value
			o := e.vc.FreshConst("frame_o", "Int")
			var excl []string
			if a != nil {
				for _, x := range a.objs {
					excl = append(excl, fmt.Sprintf("(not (= %s %s))", o, x))
				}
			}
			// (nil, reference 0, is not an object: what the model stores at index 0 is irrelevant)
			guard := fmt.Sprintf("(and (> %s 0) (select %s %s) %s)", o, al.S, o, strings.Join(append(excl, "true"), " "))
			phi := fmt.Sprintf("(=> %s (= (select %s %s) (select %s %s)))", guard, v.S, o, ev.S, o)
			e.assert(r.st, name, "frame", phi, "objects other than those in the modifies clause keep their "+shortKey(k), where, nil)
		}
	}
}

func shortKey(k string) string {
	if i := strings.Index(k, "!"); i >= 0 {
		rest := k[i+1:]
		if j := strings.LastIndex(rest, "."); j >= 0 && strings.HasPrefix(k, "H!") {
			return rest[j+1:]
		}
		return rest
	}
	return k
}

// refInv: a reference value is nil or an allocated object of its kind (Go memory safety); struct values carry the
// same fact for their reference-typed fields.
func (e *Exec) refInv(st *State, v Term, depth int) {
	switch v.T.K {
	case KRef, KMap:
		al := e.get(st, "$alloc", &Type{K: KGMap, Key: tInt, Elem: tBool})
		e.assume(st, fmt.Sprintf("(or (= %s 0) (and (select %s %s) (= (rtype %s) %d)))", v.S, al.S, v.S, v.S, e.rtypeTag(refKind(v.T))))
	case KStruct:
		if depth > 1 {
			return
		}
		for _, f := range e.fieldsOf(v.T) {
			if f.Type.K == KRef || f.Type.K == KMap || f.Type.K == KStruct {
				e.refInv(st, Term{fmt.Sprintf("(%s!%s %s)", e.Sort(v.T), f.Name, v.S), f.Type}, depth+1)
			}
		}
	}
}

// callOrdinals numbers the call sites of the function under verification per callee name (source order), so that
// ghost updates can be attached to "the 2nd call of Unlock".
func callOrdinals(body *ast.BlockStmt) map[*ast.CallExpr]string {
	m := map[*ast.CallExpr]string{}
	cnt := map[string]int{}
	var lits []*ast.FuncLit
	var visit func(n ast.Node)
	visit = func(n ast.Node) {
		ast.Inspect(n, func(x ast.Node) bool {
			if fl, ok := x.(*ast.FuncLit); ok {
				// calls inside function literals are numbered after those of the enclosing body
				lits = append(lits, fl)
				return false
			}
			call, ok := x.(*ast.CallExpr)
			if !ok {
				return true
			}
			name := ""
			switch f := unparen(call.Fun).(type) {
			case *ast.Ident:
				name = f.Name
			case *ast.SelectorExpr:
				name = f.Sel.Name
			}
			if name != "" {
				cnt[name]++
				m[call] = fmt.Sprintf("%s:%d", name, cnt[name])
			}
			return true
		})
	}
	visit(body)
	for i := 0; i < len(lits); i++ {
		visit(lits[i].Body)
	}
	return m
}
