package main

// Contract files: //@ lines of zz_contracts_verif.go (comment-only, //go:build verif).

import (
	"fmt"
	"go/ast"
	"go/parser"
	"os"
	"regexp"
	"strconv"
	"strings"
)

type Clause struct {
	Label string
	Mode  string // "", "seq", "conc"
	Text  string
	Expr  ast.Expr
	Line  int
	File  string
}

type GhostAssign struct {
	LHS  ast.Expr
	RHS  ast.Expr
	Text string
}

type OnReturn struct {
	When    ast.Expr
	Assigns []GhostAssign
	Text    string
}

type Contract struct {
	Kind        string // func | extern | field | iface
	Target      string
	Key         string // Type.Method or Func
	PkgName     string
	PkgPath     string
	Props       []string
	Params      []string
	Results     []string
	Recv        string
	Requires    []Clause
	Ensures     []Clause
	Modifies    []ast.Expr
	HasMod      bool              // a modifies clause is present (possibly "modifies nothing")
	Allocs      bool              // the function may allocate objects visible to the caller
	AllocT      []string          // ... of these kinds (struct short names, "map", "chan", "cell")
	TempKinds   []string          // temporaries K1, K2: objects of these kinds are allocated but do not escape (assumed, listed in the evidence)
	SpawnMod    []ast.Expr        // what goroutines started by this function may modify (default: nothing)
	SleepReq    []Clause          // sleep requires[label] e: must hold at every wait on the injected clock (After/Sleep) of the function; d is the duration
	SpawnReq    []Clause          // spawn requires[label] e: must hold, in the spawning activation's state, at every go statement of the function
	Observe     map[string]string // obligation-name suffix -> why a failure of it is outside the property (reported, not alarmed)
	Devirt      map[string]string
	Dispatch    map[string][]string // closed-world dispatch: interface name -> the implementing types considered
	ModText     []string
	LoopInvs    map[int][]Clause
	Opaque      []string
	GhostLocals []string
	LoopHints   map[int][]Clause
	LoopDo      map[int][]GhostAssign
	LoopRemap   map[ast.Node]int         // loops that moved (into a new helper without a contract): node -> the ordinal the contract knows them by
	LoopMods    map[int][]ast.Expr       // loop N modifies ...: what one iteration may change on the heap (default: syntactic effects)
	OnCall      map[string][]GhostAssign // "<callee name>:<ordinal>:before|after" -> ghost assignments at that call site
	SelAsserts  map[string][]Clause      // "N:default" / "N:K" -> assertions at the start of that branch of the N-th select statement
	OnRet       []OnReturn
	OnEntry     []GhostAssign
	Inst        map[string]string
	SMTStr      bool
	Inline      bool
	Mode        string // seq | conc | both
	Decr        *Clause
	NoSafety    bool
	Safety      map[string]bool
	File        string
	Line        int
	Trusted     bool
	Pure        bool
	Assumes     []string // free-text assumptions carried into the evidence
	Replay      string
}

type GhostField struct {
	Struct string
	Name   string
	Type   *Type
	TypeS  string
}

type GhostVar struct {
	Name  string
	TypeS string
	Type  *Type
	Pkg   string
}

type GhostFunc struct {
	Name    string
	Params  []string
	PTypes  []string
	RetS    string
	Body    ast.Expr
	BodyS   string
	PkgPath string
	Spec    bool // defined by an axiom instead of expanded
	// resolved
	PT  []*Type
	Ret *Type
}

type Monitor struct {
	Struct   string // short struct name
	Mutex    string
	Self     string
	Protects []string
	Inv      []Clause
	Rely     []Clause // two-state: what any other thread's critical section guarantees (old = state at the previous release)
	PkgPath  string
}

type Lemma struct {
	Label    string
	Vars     []string
	VTypes   []string
	Requires []Clause
	Ensures  []Clause
	PkgPath  string
	Props    []string
	File     string
	Line     int
}

type Axiom struct {
	Label   string
	Text    string
	Expr    ast.Expr
	PkgPath string
}

type ContractFile struct {
	PkgPath, PkgName, File string
	Contracts              []*Contract
	GhostFields            []*GhostField
	GhostVars              []*GhostVar
	GhostFuncs             []*GhostFunc
	Monitors               []*Monitor
	Lemmas                 []*Lemma
	Axioms                 []*Axiom
	Dropped                []string
	Pure                   []string
	Devirt                 map[string]string
}

var labelRe = regexp.MustCompile(`^\[([^\]]+)\]\s*`)

var declKeywords = map[string]bool{"func": true, "extern": true, "field": true, "iface": true, "pure": true, "dropped": true,
	"ghost": true, "axiom": true, "monitor": true, "lemma": true, "devirtall": true}
var clauseKeywords = map[string]bool{"prop": true, "params": true, "results": true, "recv": true, "requires": true, "ensures": true,
	"modifies": true, "loop": true, "on": true, "instantiate": true, "strings": true, "inline": true, "mode": true, "decreases": true,
	"safety": true, "invariant": true, "protects": true, "self": true, "vars": true, "assumes": true, "replay": true, "allocates": true, "opaque": true, "ghostlocal": true, "devirt": true, "dispatch": true, "spawn": true, "sleep": true, "temporaries": true, "rely": true, "observation": true, "select": true}

// desugarSpec rewrites ==> and <==> (lowest precedence, right associative) into calls.
func desugarSpec(s string) string {
	s = strings.TrimSpace(s)
	// find top-level operators
	depth := 0
	inStr := false
	idxIff, idxImp := -1, -1
	for i := 0; i < len(s); i++ {
		c := s[i]
		if c == '"' {
			inStr = !inStr
			continue
		}
		if inStr {
			continue
		}
		switch c {
		case '(', '[', '{':
			depth++
		case ')', ']', '}':
			depth--
		}
		if depth != 0 {
			continue
		}
		if strings.HasPrefix(s[i:], "<==>") {
			if idxIff < 0 {
				idxIff = i
			}
			i += 3
			continue
		}
		if strings.HasPrefix(s[i:], "==>") {
			if idxImp < 0 {
				idxImp = i
			}
			i += 2
		}
	}
	if idxIff >= 0 {
		return "iff__(" + desugarSpec(s[:idxIff]) + ", " + desugarSpec(s[idxIff+4:]) + ")"
	}
	if idxImp >= 0 {
		return "implies__(" + desugarSpec(s[:idxImp]) + ", " + desugarSpec(s[idxImp+3:]) + ")"
	}
	// descend into groups
	var b strings.Builder
	i := 0
	for i < len(s) {
		c := s[i]
		if c == '"' {
			j := i + 1
			for j < len(s) && s[j] != '"' {
				if s[j] == '\\' {
					j++
				}
				j++
			}
			b.WriteString(s[i:min(j+1, len(s))])
			i = j + 1
			continue
		}
		if c == '(' || c == '[' {
			closer := byte(')')
			if c == '[' {
				closer = ']'
			}
			d := 0
			j := i
			inq := false
			for ; j < len(s); j++ {
				if s[j] == '"' {
					inq = !inq
				}
				if inq {
					continue
				}
				if s[j] == '(' || s[j] == '[' || s[j] == '{' {
					d++
				} else if s[j] == ')' || s[j] == ']' || s[j] == '}' {
					d--
					if d == 0 {
						break
					}
				}
			}
			inner := s[i+1 : j]
			parts := splitTop(inner, ',')
			for k := range parts {
				parts[k] = desugarSpec(parts[k])
			}
			b.WriteByte(c)
			b.WriteString(strings.Join(parts, ", "))
			b.WriteByte(closer)
			i = j + 1
			continue
		}
		b.WriteByte(c)
		i++
	}
	return b.String()
}

func splitTop(s string, sep byte) []string {
	var out []string
	depth := 0
	inStr := false
	start := 0
	for i := 0; i < len(s); i++ {
		c := s[i]
		if c == '"' {
			inStr = !inStr
		}
		if inStr {
			continue
		}
		switch c {
		case '(', '[', '{':
			depth++
		case ')', ']', '}':
			depth--
		}
		if depth == 0 && c == sep {
			out = append(out, s[start:i])
			start = i + 1
		}
	}
	out = append(out, s[start:])
	return out
}

func parseSpec(text string) (ast.Expr, error) {
	d := desugarSpec(text)
	e, err := parser.ParseExpr(d)
	if err != nil {
		return nil, fmt.Errorf("spec %q (desugared %q): %v", text, d, err)
	}
	return e, nil
}

func parseAssigns(text, file string, line int) ([]GhostAssign, error) {
	var out []GhostAssign
	for _, part := range splitTop(text, ';') {
		part = strings.TrimSpace(part)
		if part == "" {
			continue
		}
		// find top-level single '='
		idx := -1
		depth := 0
		for i := 0; i < len(part); i++ {
			c := part[i]
			switch c {
			case '(', '[', '{':
				depth++
			case ')', ']', '}':
				depth--
			}
			if depth == 0 && c == '=' {
				prev := byte(' ')
				if i > 0 {
					prev = part[i-1]
				}
				next := byte(' ')
				if i+1 < len(part) {
					next = part[i+1]
				}
				if prev != '=' && prev != '!' && prev != '<' && prev != '>' && next != '=' {
					idx = i
					break
				}
			}
		}
		if idx < 0 {
			return nil, fmt.Errorf("%s:%d: ghost assignment without '=': %q", file, line, part)
		}
		l, err := parseSpec(part[:idx])
		if err != nil {
			return nil, err
		}
		r, err := parseSpec(part[idx+1:])
		if err != nil {
			return nil, err
		}
		out = append(out, GhostAssign{l, r, part})
	}
	return out, nil
}

func parseContractFile(path, pkgPath, pkgName string) (*ContractFile, error) {
	data, err := os.ReadFile(path)
	if err != nil {
		return nil, err
	}
	cf := &ContractFile{PkgPath: pkgPath, PkgName: pkgName, File: path, Devirt: map[string]string{}}
	type rawLine struct {
		text string
		line int
	}
	var lines []rawLine
	for i, l := range strings.Split(string(data), "\n") {
		t := strings.TrimSpace(l)
		if !strings.HasPrefix(t, "//@") {
			continue
		}
		t = strings.TrimSpace(t[3:])
		if t == "" {
			continue
		}
		// strip trailing comment " // ..."
		if k := strings.Index(t, " // "); k >= 0 && !strings.Contains(t[:k], `"`) {
			t = strings.TrimSpace(t[:k])
		}
		first := strings.Fields(t)[0]
		fw := first
		if k := strings.IndexAny(fw, "[("); k > 0 {
			fw = fw[:k]
		}
		if declKeywords[fw] || clauseKeywords[fw] {
			lines = append(lines, rawLine{t, i + 1})
		} else if len(lines) > 0 {
			lines[len(lines)-1].text += " " + t
		} else {
			return nil, fmt.Errorf("%s:%d: stray contract line %q", path, i+1, t)
		}
	}
	var cur *Contract
	var curMon *Monitor
	var curLemma *Lemma
	mkClause := func(rest string, line int) (Clause, error) {
		c := Clause{Line: line, File: path}
		if m := labelRe.FindStringSubmatch(rest); m != nil {
			c.Label = m[1]
			rest = rest[len(m[0]):]
		}
		if strings.HasPrefix(rest, "seq:") {
			c.Mode = "seq"
			rest = strings.TrimSpace(rest[4:])
		} else if strings.HasPrefix(rest, "conc:") {
			c.Mode = "conc"
			rest = strings.TrimSpace(rest[5:])
		}
		c.Text = rest
		e, err := parseSpec(rest)
		if err != nil {
			return c, fmt.Errorf("%s:%d: %v", path, line, err)
		}
		c.Expr = e
		return c, nil
	}
	for _, rl := range lines {
		t := rl.text
		kw := strings.Fields(t)[0]
		rest := strings.TrimSpace(t[len(kw):])
		if k := strings.IndexAny(kw, "[("); k > 0 {
			rest = strings.TrimSpace(t[k:])
			kw = kw[:k]
		}
		switch kw {
		case "func", "extern", "field", "iface":
			cur = &Contract{Kind: kw, Target: rest, PkgName: pkgName, PkgPath: pkgPath, LoopInvs: map[int][]Clause{}, LoopMods: map[int][]ast.Expr{}, Inst: map[string]string{},
				File: path, Line: rl.line, Trusted: kw != "func", Safety: map[string]bool{}}
			cur.Key = normalizeTarget(rest)
			cf.Contracts = append(cf.Contracts, cur)
			curMon, curLemma = nil, nil
		case "pure":
			cf.Pure = append(cf.Pure, normalizeTarget(rest))
			cur, curMon, curLemma = nil, nil, nil
		case "dropped":
			cf.Dropped = append(cf.Dropped, rest)
			cur, curMon, curLemma = nil, nil, nil
		case "devirtall":
			parts := strings.Split(rest, "=>")
			if len(parts) != 2 {
				return nil, fmt.Errorf("%s:%d: devirtall Iface => *T", path, rl.line)
			}
			cf.Devirt[strings.TrimSpace(parts[0])] = strings.TrimSpace(parts[1])
			cur, curMon, curLemma = nil, nil, nil
		case "ghost":
			cur, curMon, curLemma = nil, nil, nil
			f := strings.Fields(rest)
			if len(f) < 3 {
				return nil, fmt.Errorf("%s:%d: bad ghost decl", path, rl.line)
			}
			switch f[0] {
			case "field":
				dot := strings.Index(f[1], ".")
				if dot < 0 {
					return nil, fmt.Errorf("%s:%d: ghost field T.f type", path, rl.line)
				}
				cf.GhostFields = append(cf.GhostFields, &GhostField{Struct: pkgPath + "." + f[1][:dot], Name: f[1][dot+1:], TypeS: strings.Join(f[2:], " ")})
			case "var":
				cf.GhostVars = append(cf.GhostVars, &GhostVar{Name: f[1], TypeS: strings.Join(f[2:], " "), Pkg: pkgPath})
			case "func", "spec":
				// ghost func: a macro, expanded where it is used. ghost spec: a spec function, a function symbol of
				// its arguments and of the heap it reads, defined by an axiom (equal arguments give equal values by
				// congruence, even when the body is a quantified formula)
				gf, err := parseGhostFunc(strings.TrimSpace(rest[len(f[0]):]), path, rl.line)
				if err != nil {
					return nil, err
				}
				gf.PkgPath = pkgPath
				gf.Spec = f[0] == "spec"
				if gf.Spec && gf.Body == nil {
					return nil, fmt.Errorf("%s:%d: ghost spec needs a body", path, rl.line)
				}
				cf.GhostFuncs = append(cf.GhostFuncs, gf)
			default:
				return nil, fmt.Errorf("%s:%d: bad ghost decl kind %s", path, rl.line, f[0])
			}
		case "axiom":
			cur, curMon, curLemma = nil, nil, nil
			c, err := mkClause(rest, rl.line)
			if err != nil {
				return nil, err
			}
			cf.Axioms = append(cf.Axioms, &Axiom{Label: c.Label, Text: c.Text, Expr: c.Expr, PkgPath: pkgPath})
		case "monitor":
			cur, curLemma = nil, nil
			dot := strings.Index(rest, ".")
			if dot < 0 {
				return nil, fmt.Errorf("%s:%d: monitor T.mutex", path, rl.line)
			}
			curMon = &Monitor{Struct: pkgPath + "." + strings.TrimSpace(rest[:dot]), Mutex: strings.TrimSpace(rest[dot+1:]), Self: "self", PkgPath: pkgPath}
			cf.Monitors = append(cf.Monitors, curMon)
		case "lemma":
			cur, curMon = nil, nil
			curLemma = &Lemma{PkgPath: pkgPath, File: path, Line: rl.line}
			if m := labelRe.FindStringSubmatch(rest); m != nil {
				curLemma.Label = m[1]
			} else {
				curLemma.Label = strings.TrimSpace(rest)
			}
			cf.Lemmas = append(cf.Lemmas, curLemma)
		case "self":
			if curMon != nil {
				curMon.Self = rest
			}
		case "protects":
			if curMon == nil {
				return nil, fmt.Errorf("%s:%d: protects outside monitor", path, rl.line)
			}
			for _, f := range strings.Split(rest, ",") {
				curMon.Protects = append(curMon.Protects, strings.TrimSpace(f))
			}
		case "rely":
			if curMon == nil {
				return nil, fmt.Errorf("%s:%d: rely outside monitor", path, rl.line)
			}
			c, err := mkClause(rest, rl.line)
			if err != nil {
				return nil, err
			}
			curMon.Rely = append(curMon.Rely, c)
		case "invariant":
			if curMon == nil {
				return nil, fmt.Errorf("%s:%d: invariant outside monitor", path, rl.line)
			}
			c, err := mkClause(rest, rl.line)
			if err != nil {
				return nil, err
			}
			curMon.Inv = append(curMon.Inv, c)
		case "vars":
			if curLemma == nil {
				return nil, fmt.Errorf("%s:%d: vars outside lemma", path, rl.line)
			}
			for _, v := range splitTop(rest, ',') {
				f := strings.Fields(strings.TrimSpace(v))
				if len(f) < 2 {
					return nil, fmt.Errorf("%s:%d: vars x T, y T", path, rl.line)
				}
				curLemma.Vars = append(curLemma.Vars, f[0])
				curLemma.VTypes = append(curLemma.VTypes, strings.Join(f[1:], " "))
			}
		case "prop":
			ps := strings.FieldsFunc(rest, func(r rune) bool { return r == ',' || r == ' ' })
			if cur != nil {
				cur.Props = append(cur.Props, ps...)
			} else if curLemma != nil {
				curLemma.Props = append(curLemma.Props, ps...)
			}
		case "requires", "ensures":
			c, err := mkClause(rest, rl.line)
			if err != nil {
				return nil, err
			}
			if curLemma != nil {
				if kw == "requires" {
					curLemma.Requires = append(curLemma.Requires, c)
				} else {
					curLemma.Ensures = append(curLemma.Ensures, c)
				}
				continue
			}
			if cur == nil {
				return nil, fmt.Errorf("%s:%d: %s outside contract", path, rl.line, kw)
			}
			if kw == "requires" {
				cur.Requires = append(cur.Requires, c)
			} else {
				cur.Ensures = append(cur.Ensures, c)
			}
		default:
			if cur == nil {
				return nil, fmt.Errorf("%s:%d: clause %q outside contract", path, rl.line, kw)
			}
			switch kw {
			case "params":
				cur.Params = fieldsComma(rest)
			case "results":
				cur.Results = fieldsComma(rest)
			case "recv":
				cur.Recv = rest
			case "modifies":
				cur.HasMod = true
				for _, m := range splitTop(rest, ',') {
					m = strings.TrimSpace(m)
					if m == "" || m == "nothing" {
						continue
					}
					e, err := parseSpec(m)
					if err != nil {
						return nil, fmt.Errorf("%s:%d: %v", path, rl.line, err)
					}
					cur.Modifies = append(cur.Modifies, e)
					cur.ModText = append(cur.ModText, m)
				}
			case "loop":
				f := strings.Fields(rest)
				n, err := strconv.Atoi(f[0])
				if err != nil || len(f) < 2 {
					return nil, fmt.Errorf("%s:%d: loop N invariant ...", path, rl.line)
				}
				r2 := strings.TrimSpace(rest[len(f[0]):])
				if strings.HasPrefix(r2, "modifies") {
					cur.LoopMods[n] = append(cur.LoopMods[n], []ast.Expr{}...)
					if cur.LoopMods[n] == nil {
						cur.LoopMods[n] = []ast.Expr{}
					}
					for _, m := range splitTop(strings.TrimSpace(r2[len("modifies"):]), ',') {
						m = strings.TrimSpace(m)
						if m == "" || m == "nothing" {
							continue
						}
						e, err := parseSpec(m)
						if err != nil {
							return nil, fmt.Errorf("%s:%d: %v", path, rl.line, err)
						}
						cur.LoopMods[n] = append(cur.LoopMods[n], e)
					}
					continue
				}
				if strings.HasPrefix(r2, "do ") {
					// loop N do g = e; ...: ghost updates at the end of every iteration (witness bookkeeping)
					as, err := parseAssigns(strings.TrimSpace(r2[3:]), path, rl.line)
					if err != nil {
						return nil, err
					}
					if cur.LoopDo == nil {
						cur.LoopDo = map[int][]GhostAssign{}
					}
					cur.LoopDo[n] = append(cur.LoopDo[n], as...)
					continue
				}
				if strings.HasPrefix(r2, "hint") {
					// loop N hint[label] e: asserted (and then assumed) at the end of every iteration, before the
					// invariant is re-established: an intermediate fact that gives the solver its witness terms
					c, err := mkClause(strings.TrimSpace(r2[len("hint"):]), rl.line)
					if err != nil {
						return nil, err
					}
					if cur.LoopHints == nil {
						cur.LoopHints = map[int][]Clause{}
					}
					cur.LoopHints[n] = append(cur.LoopHints[n], c)
					continue
				}
				if !strings.HasPrefix(r2, "invariant") {
					return nil, fmt.Errorf("%s:%d: loop N invariant ...", path, rl.line)
				}
				c, err := mkClause(strings.TrimSpace(r2[len("invariant"):]), rl.line)
				if err != nil {
					return nil, err
				}
				cur.LoopInvs[n] = append(cur.LoopInvs[n], c)
			case "on":
				// on return [when e] do a = b; c = d     |  on entry do a = b
				if strings.HasPrefix(rest, "entry") {
					r2 := strings.TrimSpace(rest[len("entry"):])
					r2 = strings.TrimSpace(strings.TrimPrefix(r2, "do"))
					as, err := parseAssigns(r2, path, rl.line)
					if err != nil {
						return nil, err
					}
					cur.OnEntry = append(cur.OnEntry, as...)
					continue
				}
				if strings.HasPrefix(rest, "call ") {
					// on call <name> <ordinal> before|after do a = b; ...
					f := strings.Fields(rest)
					doIdx := strings.Index(rest, " do ")
					if len(f) < 6 || doIdx < 0 || (f[3] != "before" && f[3] != "after") {
						return nil, fmt.Errorf("%s:%d: on call <name> <ordinal> before|after do ...", path, rl.line)
					}
					as, err := parseAssigns(strings.TrimSpace(rest[doIdx+4:]), path, rl.line)
					if err != nil {
						return nil, err
					}
					if cur.OnCall == nil {
						cur.OnCall = map[string][]GhostAssign{}
					}
					k := f[1] + ":" + f[2] + ":" + f[3]
					cur.OnCall[k] = append(cur.OnCall[k], as...)
					continue
				}
				if !strings.HasPrefix(rest, "return") {
					return nil, fmt.Errorf("%s:%d: on return ...", path, rl.line)
				}
				r2 := strings.TrimSpace(rest[len("return"):])
				or := OnReturn{Text: r2}
				doIdx := strings.Index(r2, " do ")
				if strings.HasPrefix(r2, "do ") {
					doIdx = -1
					r2 = " " + r2
					doIdx = 0
				}
				if doIdx < 0 {
					return nil, fmt.Errorf("%s:%d: on return [when e] do ...", path, rl.line)
				}
				head := strings.TrimSpace(r2[:doIdx])
				body := strings.TrimSpace(r2[doIdx+4:])
				if strings.HasPrefix(head, "when") {
					e, err := parseSpec(strings.TrimSpace(head[4:]))
					if err != nil {
						return nil, fmt.Errorf("%s:%d: %v", path, rl.line, err)
					}
					or.When = e
				}
				as, err := parseAssigns(body, path, rl.line)
				if err != nil {
					return nil, err
				}
				or.Assigns = as
				cur.OnRet = append(cur.OnRet, or)
			case "instantiate":
				for _, kv := range fieldsComma(rest) {
					p := strings.SplitN(kv, "=", 2)
					if len(p) == 2 {
						cur.Inst[strings.TrimSpace(p[0])] = strings.TrimSpace(p[1])
					}
				}
			case "temporaries":
				cur.TempKinds = append(cur.TempKinds, fieldsComma(rest)...)
			case "sleep":
				if strings.HasPrefix(rest, "requires") {
					c, err := mkClause(strings.TrimPrefix(rest, "requires"), rl.line)
					if err != nil {
						return nil, err
					}
					cur.SleepReq = append(cur.SleepReq, c)
					continue
				}
				return nil, fmt.Errorf("%s:%d: sleep: only `sleep requires[l] e` is known", path, rl.line)
			case "spawn":
				if strings.HasPrefix(rest, "requires") {
					c, err := mkClause(strings.TrimPrefix(rest, "requires"), rl.line)
					if err != nil {
						return nil, err
					}
					cur.SpawnReq = append(cur.SpawnReq, c)
					continue
				}
				r2 := strings.TrimSpace(strings.TrimPrefix(rest, "modifies"))
				for _, m := range splitTop(r2, ',') {
					m = strings.TrimSpace(m)
					if m == "" || m == "nothing" {
						continue
					}
					e, err := parseSpec(m)
					if err != nil {
						return nil, fmt.Errorf("%s:%d: %v", path, rl.line, err)
					}
					cur.SpawnMod = append(cur.SpawnMod, e)
				}
			case "select":
				// select N default|case K asserts[label] expr
				f := strings.Fields(rest)
				if len(f) < 4 {
					return nil, fmt.Errorf("%s:%d: select N default|case K asserts[label] expr", path, rl.line)
				}
				key := f[0] + ":default"
				skip := 2
				if f[1] == "case" {
					key = f[0] + ":" + f[2]
					skip = 3
				}
				idx := 0
				for i := 0; i < skip; i++ {
					idx = strings.Index(rest[idx:], f[i]) + idx + len(f[i])
				}
				r2 := strings.TrimSpace(rest[idx:])
				isAssume := strings.HasPrefix(r2, "assumes")
				if !strings.HasPrefix(r2, "asserts") && !isAssume {
					return nil, fmt.Errorf("%s:%d: select N default|case K asserts|assumes[label] expr", path, rl.line)
				}
				c, err := mkClause(strings.TrimSpace(r2[len("asserts"):]), rl.line)
				if err != nil {
					return nil, err
				}
				if isAssume {
					c.Mode = "assume"
					cur.Assumes = append(cur.Assumes, "at select "+key+": "+c.Text)
				}
				if cur.SelAsserts == nil {
					cur.SelAsserts = map[string][]Clause{}
				}
				cur.SelAsserts[key] = append(cur.SelAsserts[key], c)
			case "observation":
				// observation <obligation suffix> :: <text>
				parts := strings.SplitN(rest, "::", 2)
				if len(parts) != 2 {
					return nil, fmt.Errorf("%s:%d: observation <obligation suffix> :: <text>", path, rl.line)
				}
				if cur.Observe == nil {
					cur.Observe = map[string]string{}
				}
				cur.Observe[strings.TrimSpace(parts[0])] = strings.TrimSpace(parts[1])
			case "ghostlocal":
				// ghostlocal name type: a ghost variable local to one activation of this function (callers, and the
				// function's own recursive calls, never see it change; it is not part of the frame)
				f := strings.Fields(rest)
				if len(f) < 2 {
					return nil, fmt.Errorf("%s:%d: ghostlocal name type", path, rl.line)
				}
				cf.GhostVars = append(cf.GhostVars, &GhostVar{Name: f[0], TypeS: strings.Join(f[1:], " "), Pkg: pkgPath})
				cur.GhostLocals = append(cur.GhostLocals, f[0])
			case "opaque":
				// opaque f, g: the definitions of these spec functions are not used by this function's proofs
				cur.Opaque = append(cur.Opaque, fieldsComma(rest)...)
			case "allocates":
				cur.Allocs = true
				cur.AllocT = append(cur.AllocT, fieldsComma(rest)...)
			case "devirt":
				parts := strings.Split(rest, "=>")
				if len(parts) != 2 {
					return nil, fmt.Errorf("%s:%d: devirt Iface => *T", path, rl.line)
				}
				if cur.Devirt == nil {
					cur.Devirt = map[string]string{}
				}
				cur.Devirt[strings.TrimSpace(parts[0])] = strings.TrimSpace(parts[1])
			case "dispatch":
				parts := strings.Split(rest, "=>")
				if len(parts) != 2 {
					return nil, fmt.Errorf("%s:%d: dispatch Iface => *T1, *T2", path, rl.line)
				}
				if cur.Dispatch == nil {
					cur.Dispatch = map[string][]string{}
				}
				cur.Dispatch[strings.TrimSpace(parts[0])] = fieldsComma(parts[1])
			case "strings":
				cur.SMTStr = strings.Contains(rest, "smt")
			case "inline":
				cur.Inline = true
			case "mode":
				cur.Mode = rest
			case "safety":
				if rest == "off" {
					cur.NoSafety = true
				} else {
					for _, s := range fieldsComma(rest) {
						cur.Safety[s] = true
					}
				}
			case "assumes":
				cur.Assumes = append(cur.Assumes, rest)
			case "replay":
				cur.Replay = rest
			case "decreases":
				c, err := mkClause(rest, rl.line)
				if err != nil {
					return nil, err
				}
				cur.Decr = &c
			default:
				return nil, fmt.Errorf("%s:%d: unknown clause %q", path, rl.line, kw)
			}
		}
	}
	return cf, nil
}

func fieldsComma(s string) []string {
	var out []string
	for _, f := range strings.Split(s, ",") {
		f = strings.TrimSpace(f)
		if f != "" {
			out = append(out, f)
		}
	}
	return out
}

// normalizeTarget: "(*T).M" / "(T).M" / "(*T[K]).M" / "T.M" / "F" / "pkg.T.M" -> "T.M" / "F" / "pkg.T.M"
func normalizeTarget(s string) string {
	s = strings.TrimSpace(s)
	s = strings.ReplaceAll(s, "(*", "")
	s = strings.ReplaceAll(s, "(", "")
	s = strings.ReplaceAll(s, ")", "")
	if i := strings.Index(s, "["); i >= 0 {
		j := strings.Index(s, "]")
		if j > i {
			s = s[:i] + s[j+1:]
		}
	}
	return s
}

var ghostFuncRe = regexp.MustCompile(`^(\w+)\s*\(([^)]*)\)\s*([^=]+?)\s*(?:=\s*(.*))?$`)

func parseGhostFunc(s, path string, line int) (*GhostFunc, error) {
	m := ghostFuncRe.FindStringSubmatch(s)
	if m == nil {
		return nil, fmt.Errorf("%s:%d: ghost func name(a T, b T) R [= expr]", path, line)
	}
	gf := &GhostFunc{Name: m[1], RetS: strings.TrimSpace(m[3])}
	if strings.TrimSpace(m[2]) != "" {
		for _, p := range strings.Split(m[2], ",") {
			f := strings.Fields(strings.TrimSpace(p))
			if len(f) < 2 {
				return nil, fmt.Errorf("%s:%d: ghost func param %q", path, line, p)
			}
			gf.Params = append(gf.Params, f[0])
			gf.PTypes = append(gf.PTypes, strings.Join(f[1:], " "))
		}
	}
	if m[4] != "" {
		e, err := parseSpec(m[4])
		if err != nil {
			return nil, fmt.Errorf("%s:%d: %v", path, line, err)
		}
		gf.Body = e
		gf.BodyS = m[4]
	}
	return gf, nil
}

func (c *Contract) isGhostLocal(name string) bool {
	for _, g := range c.GhostLocals {
		if g == name {
			return true
		}
	}
	return false
}
