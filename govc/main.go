package main

import (
	"sync"
	"encoding/json"
	"flag"
	"fmt"
	"os"
	"os/exec"
	"path/filepath"
	"regexp"
	"sort"
	"strconv"
	"strings"
	"time"
)

type PropConfig struct {
	ID          string   `json:"id"`
	ModuleDir   string   `json:"module_dir"`
	Packages    []string `json:"packages"`
	Assumptions []string `json:"assumptions"`
	Unverified  []string `json:"unverified"`
	Trusted     []string `json:"trusted_base"`
	Extra       []struct {
		ModuleDir string   `json:"module_dir"`
		Packages  []string `json:"packages"`
	} `json:"extra_modules"`
	MinObligations int `json:"min_obligations"`
	// bounded stand-ins: real functions outside the verifier's reach, executed exhaustively up to a stated bound against
	// the contract the proofs assume for them; never counted as proved
	Bounded []BoundedCheck `json:"bounded"`
}

type BoundedCheck struct {
	Name      string   `json:"name"`
	StandsFor string   `json:"stands_for"`
	Bound     string   `json:"bound"`
	Cmd       []string `json:"cmd"`
	Tiers     []string `json:"tiers"`
}

type KnownFinding struct {
	Kind       string // finding | fixed
	Property   string
	Obligation string
	Class      string
	What       string
	Cases      string // for a finding of a bounded stand-in (obligation "bounded:<name>"): file listing the failing cases that are known
	Line       string
}

var kfRe = regexp.MustCompile(`(\w+)=("([^"]*)"|\S+)`)

func loadKnown(path string) []KnownFinding {
	data, err := os.ReadFile(path)
	if err != nil {
		return nil
	}
	var out []KnownFinding
	for _, l := range strings.Split(string(data), "\n") {
		l = strings.TrimSpace(l)
		if l == "" || strings.HasPrefix(l, "#") {
			continue
		}
		k := KnownFinding{Line: l}
		if strings.HasPrefix(l, "finding:") {
			k.Kind = "finding"
		} else if strings.HasPrefix(l, "fixed:") {
			k.Kind = "fixed"
		} else {
			continue
		}
		for _, m := range kfRe.FindAllStringSubmatch(l, -1) {
			v := m[2]
			if m[3] != "" || strings.HasPrefix(v, `"`) {
				v = m[3]
			}
			switch m[1] {
			case "property":
				k.Property = v
			case "obligation":
				k.Obligation = v
			case "class":
				k.Class = v
			case "what":
				k.What = v
			case "cases":
				k.Cases = v
			}
		}
		out = append(out, k)
	}
	return out
}

func main() {
	if len(os.Args) < 2 {
		fmt.Fprintln(os.Stderr, "usage: govc check -prop ID ...")
		os.Exit(2)
	}
	switch os.Args[1] {
	case "check":
		os.Exit(cmdCheck(os.Args[2:]))
	default:
		fmt.Fprintln(os.Stderr, "unknown command", os.Args[1])
		os.Exit(2)
	}
}

type obReport struct {
	Name    string            `json:"name"`
	Kind    string            `json:"kind"`
	Func    string            `json:"func"`
	Pos     string            `json:"pos,omitempty"`
	Text    string            `json:"text,omitempty"`
	Expect  string            `json:"expect"`
	Result  string            `json:"result"`
	Backend string            `json:"backend,omitempty"`
	Seconds float64           `json:"seconds"`
	File    string            `json:"smt_file,omitempty"`
	Status  string            `json:"status"`
	Model   map[string]string `json:"model,omitempty"`
}

func cmdCheck(args []string) int {
	fs := flag.NewFlagSet("check", flag.ExitOnError)
	prop := fs.String("prop", "", "property id")
	tier := fs.String("tier", "quick", "quick|thorough")
	verifDir := fs.String("verif", "/verif", "verif dir")
	only := fs.String("only", "", "only functions whose name contains this")
	timeout := fs.Int("timeout", 0, "per-obligation timeout (s)")
	verbose := fs.Bool("v", false, "verbose")
	knownPath := fs.String("known", "", "known findings file (default <verif>/known_findings.txt)")
	noEvidence := fs.Bool("no-evidence", false, "do not write the evidence file")
	writeBind := fs.Bool("write-bindings", false, "record the variables of the functions under contract in <verif>/bindings/<prop>.json (run on the tree the contracts were written against)")
	_ = fs.Parse(args)
	t0 := time.Now()
	if *knownPath == "" {
		*knownPath = filepath.Join(*verifDir, "known_findings.txt")
	}
	cfgData, err := os.ReadFile(filepath.Join(*verifDir, "props", *prop+".json"))
	if err != nil {
		fmt.Println("TOOL-ERROR", err)
		return 2
	}
	var cfg PropConfig
	if err := json.Unmarshal(cfgData, &cfg); err != nil {
		fmt.Println("TOOL-ERROR bad config:", err)
		return 2
	}
	to := 30
	if *tier == "thorough" {
		to = 120
	}
	if *timeout > 0 {
		to = *timeout
	}
	outRoot := filepath.Join(*verifDir, "out")
	if r := os.Getenv("GOVC_OUT"); r != "" {
		outRoot = r
	}
	seed := 0
	if s := os.Getenv("VERIF_SEED"); s != "" {
		seed, _ = strconv.Atoi(s)
	}
	type modSpec struct {
		dir  string
		pkgs []string
	}
	// GOVC_REPO: check a scratch worktree instead of /repo (used by the self-test, which mutates the tree)
	reroot := func(d string) string {
		if r := os.Getenv("GOVC_REPO"); r != "" && strings.HasPrefix(d, "/repo") {
			return r + strings.TrimPrefix(d, "/repo")
		}
		return d
	}
	mods := []modSpec{{reroot(cfg.ModuleDir), cfg.Packages}}
	for _, x := range cfg.Extra {
		mods = append(mods, modSpec{reroot(x.ModuleDir), x.Packages})
	}
	var reports []*FuncReport
	recordedBind := readBindings(*verifDir, cfg.ID)
	newBind := map[string][]bindEntry{}
	for _, m := range mods {
		prog, err := loadProgram(m.dir, m.pkgs, "verif")
		if err != nil {
			fmt.Println("TOOL-ERROR loading packages:", err)
			return 2
		}
		if *writeBind {
			prog.collectBindings(cfg.ID, newBind)
		} else {
			for _, n := range prog.applyFuncRenames(cfg.ID, recordedBind) {
				fmt.Println("NOTE", n)
			}
			for _, n := range prog.applyDroppedRenames(cfg.ID, recordedBind) {
				fmt.Println("NOTE", n)
			}
			for _, n := range prog.applyLoopMoves(cfg.ID, recordedBind) {
				fmt.Println("NOTE", n)
			}
			for _, n := range prog.applyRenames(cfg.ID, recordedBind) {
				fmt.Println("NOTE", n)
			}
		}
		seen := map[*Contract]bool{}
		for _, ct := range prog.allCon {
			if ct.Kind != "func" || seen[ct] {
				continue
			}
			seen[ct] = true
			if !hasProp(ct.Props, cfg.ID) {
				continue
			}
			if *only != "" && !strings.Contains(ct.Key, *only) {
				continue
			}
			reports = append(reports, prog.VerifyFunc(ct))
		}
		for _, l := range prog.lemmas {
			if !hasProp(l.Props, cfg.ID) {
				continue
			}
			if *only != "" && !strings.Contains(l.Label, *only) {
				continue
			}
			reports = append(reports, prog.VerifyLemma(l))
		}
	}
	if *writeBind {
		if err := writeBindings(*verifDir, cfg.ID, newBind); err != nil {
			fmt.Println("TOOL-ERROR", err)
			return 2
		}
	}
	sort.Slice(reports, func(i, j int) bool { return reports[i].Func < reports[j].Func })
	var all []*Obligation
	for _, r := range reports {
		all = append(all, r.obs...)
	}
	outDir := filepath.Join(outRoot, "vc", cfg.ID)
	_ = os.RemoveAll(outDir)
	Discharge(all, outDir, to, 16)

	known := loadKnown(*knownPath)
	var obReps []obReport
	nProof, nDischarged, nVac, nVacOK := 0, 0, 0, 0
	var violations []string
	var knownHits []string
	var toolErrs []string
	solverTime := 0.0
	backends := map[string]int{}
	replayDir := filepath.Join(outRoot, "replays", cfg.ID)
	_ = os.RemoveAll(replayDir)
	seenErr := map[string]bool{}
	for _, r := range reports {
		for _, er := range r.Errors {
			if k := r.Func + ": " + er; !seenErr[k] {
				seenErr[k] = true
				toolErrs = append(toolErrs, k)
			}
		}
	}
	observe := map[string]string{}
	for _, r := range reports {
		for suf, txt := range r.Observe {
			observe[r.Func+"#"+suf] = txt
		}
	}
	var observations []string
	for _, o := range all {
		solverTime += o.Seconds
		or := obReport{Name: o.Name, Kind: o.Kind, Func: o.Func, Pos: o.Pos, Text: o.Text, Expect: o.Expect, Result: o.Result, Backend: o.Backend,
			Seconds: o.Seconds, File: o.File, Model: o.Values}
		if o.Expect == "sat" {
			nVac++
			if o.Result == "sat" {
				nVacOK++
				or.Status = "reachable"
			} else if o.Result == "unsat" {
				or.Status = "VACUOUS"
				violations = append(violations, writeReplay(replayDir, cfg.ID, o, "vacuity guard failed: the assumptions of this function exclude every execution (contradictory requires / callee contracts) or the code can no longer reach this point"))
			} else {
				// unknown on a satisfiability check: not an alarm (quantified axioms); recorded
				or.Status = "reachability-unknown"
			}
			obReps = append(obReps, or)
			continue
		}
		backends[o.Backend]++
		if o.Result == "unsat" {
			nProof++
			nDischarged++
			or.Status = "discharged"
			obReps = append(obReps, or)
			continue
		}
		if o.Result == "error" {
			or.Status = "solver-error"
			toolErrs = append(toolErrs, fmt.Sprintf("%s: every solver rejected the query: %s", o.Name, truncate(o.Raw, 200)))
			obReps = append(obReps, or)
			continue
		}
		if txt, ok := observe[o.Name]; ok {
			// declared in the contract file as outside the property: reported, never an alarm
			or.Status = "observation"
			observations = append(observations, fmt.Sprintf("OBSERVATION (outside property %s): %s [%s: %s]", cfg.ID, txt, o.Name, o.Result))
			obReps = append(obReps, or)
			continue
		}
		// failed: known finding?
		matched := false
		for _, k := range known {
			if k.Kind != "finding" || k.Property != cfg.ID || k.Obligation != o.Name {
				continue
			}
			matched = true
			knownHits = append(knownHits, fmt.Sprintf("KNOWN-FINDING: property=%s %s (obligation %s)", cfg.ID, k.What, o.Name))
			or.Status = "known-finding"
		}
		if !matched {
			nProof++
			or.Status = "FAILED"
			why := "obligation not discharged: " + o.Result
			violations = append(violations, writeReplay(replayDir, cfg.ID, o, why))
		}
		obReps = append(obReps, or)
	}
	// vacuity: at least one obligation and all functions found
	minOb := cfg.MinObligations
	if *only != "" {
		minOb = 0
	}
	if nProof+len(knownHits) == 0 || nProof < minOb {
		toolErrs = append(toolErrs, fmt.Sprintf("only %d obligations generated (expected at least %d): contracts did not bind", nProof, minOb))
	}
	// output
	for _, r := range reports {
		fmt.Printf("func %-60s modes=%v obligations=%d\n", r.Func, r.Modes, r.NumObs)
		if *verbose {
			for _, n := range r.Notes {
				fmt.Println("    note:", n)
			}
		}
	}
	for _, or := range obReps {
		if *verbose || (or.Status != "discharged" && or.Status != "reachable") {
			fmt.Printf("  %-14s %-8s %6.2fs %-8s %s\n", or.Status, or.Result, or.Seconds, or.Backend, or.Name)
			if or.Status == "FAILED" && len(or.Model) > 0 {
				fmt.Printf("      model: %v\n", or.Model)
			}
		}
	}
	// bounded stand-ins (labelled bounded; not part of the obligation counts)
	var boundedReps []map[string]any
	if *only == "" {
		for _, b := range cfg.Bounded {
			if len(b.Tiers) > 0 && !hasProp(b.Tiers, *tier) {
				continue
			}
			tb := time.Now()
			cmd := exec.Command(b.Cmd[0], b.Cmd[1:]...)
			cmd.Dir = *verifDir
			cmd.Env = os.Environ()
			// a recorded finding of a bounded stand-in is identified by its failing cases: the stand-in is told which
			// cases are known, fails on any other failing case, and says so when only the known ones fail
			var bk *KnownFinding
			for i := range known {
				if known[i].Kind == "finding" && known[i].Property == cfg.ID && strings.HasPrefix(known[i].Obligation, "bounded:") && known[i].Cases != "" {
					bk = &known[i]
					cmd.Env = append(cmd.Env, "VERIF_KNOWN_CASES="+filepath.Join(*verifDir, known[i].Cases))
				}
			}
			outB, err := cmd.CombinedOutput()
			if err == nil && bk != nil && strings.Contains(string(outB), "REPLAY KNOWN-FINDING") {
				knownHits = append(knownHits, fmt.Sprintf("KNOWN-FINDING: property=%s %s (bounded stand-in %q, cases listed in %s)", cfg.ID, bk.What, b.Name, bk.Cases))
			}
			res := "held on everything explored"
			if err != nil {
				res = "FAILED"
				_ = os.MkdirAll(replayDir, 0o755)
				rp := filepath.Join(replayDir, "bounded_"+mangle(b.Name)+".log")
				_ = os.WriteFile(rp, append([]byte(fmt.Sprintf("bounded stand-in %q (%s) failed: %v\ncommand: %v\n\n", b.Name, b.Bound, err, b.Cmd)), outB...), 0o644)
				violations = append(violations, fmt.Sprintf("VIOLATION property=%s replay=%s", cfg.ID, rp))
			}
			fmt.Printf("  bounded        %-8s %6.2fs          %s [%s]\n", map[bool]string{true: "ok", false: "FAILED"}[err == nil], time.Since(tb).Seconds(), b.Name, b.Bound)
			boundedReps = append(boundedReps, map[string]any{"name": b.Name, "stands_for": b.StandsFor, "bound": b.Bound, "command": strings.Join(b.Cmd, " "), "result": res, "seconds": time.Since(tb).Seconds()})
		}
	}
	// thorough tier: the registered replay tests of this property (one per defect found so far) are run against the
	// tree as regression tests: each must pass, except those registered for a recorded known finding
	if *tier == "thorough" && *only == "" {
		for _, rr := range registeredReplays(cfg.ID) {
			isKnown := false
			for _, k := range known {
				if k.Kind == "finding" && k.Property == cfg.ID {
					for _, pf := range rr.Prefixes {
						if strings.HasPrefix(k.Obligation, pf) {
							isKnown = true
						}
					}
				}
			}
			if isKnown {
				continue
			}
			tb := time.Now()
			cmd := exec.Command(rr.Cmd[0], rr.Cmd[1:]...)
			cmd.Dir = *verifDir
			cmd.Env = os.Environ()
			outB, err := cmd.CombinedOutput()
			fmt.Printf("  replay-test    %-8s %6.2fs          %s\n", map[bool]string{true: "pass", false: "FAILED"}[err == nil], time.Since(tb).Seconds(), strings.Join(rr.Cmd, " "))
			boundedReps = append(boundedReps, map[string]any{"name": "regression replay: " + strings.Join(rr.Cmd, " "), "stands_for": "a defect found earlier by obligations " + strings.Join(rr.Prefixes, ", "), "bound": "one concrete failing input of that defect", "result": map[bool]string{true: "passes on this tree", false: "FAILS on this tree"}[err == nil], "seconds": time.Since(tb).Seconds()})
			if err != nil {
				_ = os.MkdirAll(replayDir, 0o755)
				rp := filepath.Join(replayDir, "regression_"+mangle(strings.Join(rr.Cmd, "_"))+".log")
				_ = os.WriteFile(rp, outB, 0o644)
				violations = append(violations, fmt.Sprintf("VIOLATION property=%s replay=%s", cfg.ID, rp))
			}
		}
	}
	for _, k := range knownHits {
		fmt.Println(k)
	}
	for _, k := range observations {
		fmt.Println(k)
	}
	for _, te := range toolErrs {
		fmt.Println("TOOL-ERROR", te)
	}
	// The packages load and type-check, but a contract of this property no longer binds to the code (a name it mentions is
	// gone, a clause no longer type-checks, too few obligations are generated). Every obligation of that contract passed on
	// the unchanged tree and can not be generated now: the property is undecided on this tree, which the interface reports
	// as a violation without a failing input, naming the contract that lost its code.
	if len(violations) == 0 && len(toolErrs) > 0 {
		_ = os.MkdirAll(replayDir, 0o755)
		fn := filepath.Join(replayDir, "contract-binds.json")
		rep := map[string]any{
			"property": cfg.ID, "obligation": "contract-binds", "kind": "contract-binding",
			"why":           "the contracts of this property no longer bind to the code under /repo: obligations that were discharged on the unchanged tree can not be generated, so the property is not shown to hold",
			"solver_output": strings.Join(toolErrs, "\n"), "replay_status": "no-model",
		}
		b, _ := json.MarshalIndent(rep, "", " ")
		_ = os.WriteFile(fn, b, 0o644)
		violations = append(violations, fmt.Sprintf("VIOLATION property=%s replay=%s no-failing-input-found", cfg.ID, fn))
	}
	for _, v := range violations {
		fmt.Println(v)
	}
	wall := time.Since(t0).Seconds()
	fmt.Printf("property %s: %d/%d obligations discharged, %d/%d vacuity guards reachable, %d known-finding obligations, %d violations, %.1fs (solver %.1fs)\n",
		cfg.ID, nDischarged, nProof, nVacOK, nVac, len(knownHits), len(violations), wall, solverTime)
	if !*noEvidence && *only == "" {
		writeEvidence(*verifDir, &cfg, *tier, seed, reports, obReps, nProof, nDischarged, nVac, nVacOK, append(knownHits, observations...), violations, toolErrs, wall, solverTime, backends, to, boundedReps)
	}
	if len(violations) > 0 {
		return 1
	}
	if len(toolErrs) > 0 {
		return 2
	}
	return 0
}

func hasProp(ps []string, id string) bool {
	for _, p := range ps {
		if p == id {
			return true
		}
	}
	return false
}

func writeReplay(dir, prop string, o *Obligation, why string) string {
	_ = os.MkdirAll(dir, 0o755)
	fn := filepath.Join(dir, mangle(o.Name)+".json")
	if len(fn) > 240 {
		fn = fn[:230] + ".json"
	}
	status := "no-model"
	if o.Result == "sat" && o.Expect == "unsat" {
		status = "model-not-replayed"
	}
	// a replay registered for this obligation runs a test against the real code of the tree under check
	replayCmd, replayOut, reproduced := runRegisteredReplay(prop, o.Name)
	if replayCmd != "" {
		if reproduced {
			status = "reproduced on the real code: the registered replay fails on this tree"
		} else if status == "model-not-replayed" {
			status = "model-not-replayed (the registered replay passes on this tree: the failing input is another one)"
		}
	}
	rep := map[string]any{
		"property": prop, "obligation": o.Name, "kind": o.Kind, "function": o.Func, "position": o.Pos, "clause": o.Text,
		"solver_result": o.Result, "backend": o.Backend, "seconds": o.Seconds, "smt_file": o.File, "why": why,
		"solver_output": truncate(o.Raw, 4000), "model": o.Values, "replay_status": status,
	}
	if replayCmd != "" {
		rep["replay_command"] = replayCmd
		rep["replay_output"] = truncate(replayOut, 6000)
	}
	b, _ := json.MarshalIndent(rep, "", " ")
	_ = os.WriteFile(fn, b, 0o644)
	line := fmt.Sprintf("VIOLATION property=%s replay=%s", prop, fn)
	if status == "no-model" {
		line += " no-failing-input-found"
	}
	return line
}

var replayVerifDir = "/verif"

type regReplay struct {
	Property string   `json:"property"`
	Prefixes []string `json:"prefixes"`
	Cmd      []string `json:"cmd"`
}

func registeredReplays(prop string) []regReplay {
	data, err := os.ReadFile(filepath.Join(replayVerifDir, "replays.json"))
	if err != nil {
		return nil
	}
	var cfg struct {
		Replays []regReplay `json:"replays"`
	}
	if json.Unmarshal(data, &cfg) != nil {
		return nil
	}
	var out []regReplay
	for _, r := range cfg.Replays {
		if r.Property == prop && len(r.Cmd) > 0 {
			out = append(out, r)
		}
	}
	return out
}

// runRegisteredReplay looks the obligation up in /verif/replays.json and runs the registered test against the real code.
// reproduced is true when the test fails (exit status != 0), i.e. the violation shows on the real code.
func runRegisteredReplay(prop, obligation string) (cmdS, out string, reproduced bool) {
	data, err := os.ReadFile(filepath.Join(replayVerifDir, "replays.json"))
	if err != nil {
		return "", "", false
	}
	var cfg struct {
		Replays []struct {
			Property string   `json:"property"`
			Prefixes []string `json:"prefixes"`
			Cmd      []string `json:"cmd"`
		} `json:"replays"`
	}
	if json.Unmarshal(data, &cfg) != nil {
		return "", "", false
	}
	for _, r := range cfg.Replays {
		if r.Property != prop || len(r.Cmd) == 0 {
			continue
		}
		for _, pf := range r.Prefixes {
			if strings.HasPrefix(obligation, pf) {
				cmd := exec.Command(r.Cmd[0], r.Cmd[1:]...)
				cmd.Dir = replayVerifDir
				cmd.Env = os.Environ()
				b, err := cmd.CombinedOutput()
				return strings.Join(r.Cmd, " "), string(b), err != nil
			}
		}
	}
	return "", "", false
}

func truncate(s string, n int) string {
	if len(s) > n {
		return s[:n] + "..."
	}
	return s
}

// "pkg.Key" of every contract whose requires some call site in the verified set checked
var preCheckedOf = &sync.Map{}

func writeEvidence(verifDir string, cfg *PropConfig, tier string, seed int, reports []*FuncReport, obs []obReport, nProof, nDis, nVac, nVacOK int,
	known, violations, toolErrs []string, wall, solver float64, backends map[string]int, to int, bounded []map[string]any) {
	var funcs []map[string]any
	trusted := map[string]bool{}
	assume := map[string]bool{}
	for _, r := range reports {
		funcs = append(funcs, map[string]any{"func": r.Func, "source": r.File, "contract": r.Contract, "modes": r.Modes, "obligations": r.NumObs,
			"dropped_by_extraction": r.Dropped, "externs": r.Externs, "inlined_callees": r.Inlined, "havocked_calls": r.Havocs, "notes": r.Notes})
		for _, x := range r.Externs {
			trusted[x] = true
		}
		for _, x := range r.Assumes {
			assume[x] = true
		}
		for _, x := range r.Havocs {
			assume["call over-approximated by havoc: "+x] = true
		}
	}
	for _, x := range cfg.Trusted {
		trusted[x] = true
	}
	// requires clauses that no call site in the verified set checks: assumptions about callers outside it
	for _, r := range reports {
		if _, ok := preCheckedOf.Load(r.Func); r.Key == "" || ok {
			continue
		}
		for _, rq := range r.Requires {
			assume["entry precondition of "+r.Func+" (no call site in the verified set checks it): "+truncate(rq, 300)] = true
		}
	}
	tb := keysOf(trusted)
	tb = append(tb, "govc (front end, symbolic executor, heap/map/sequence encoding)", "z3 4.8.12 / z3-new 5.1.0 / cvc5 1.0 (portfolio, first definite answer)", "go/parser, go/types, x/tools go/packages v0.29.0")
	as := append([]string{}, cfg.Assumptions...)
	as = append(as, keysOf(assume)...)
	as = append(as, "integers are mathematical (no overflow obligations unless stated)", "floats are reals", "injected clock is monotone; time.Time is an integer number of nanoseconds",
		"method receivers of functions under contract are non-nil", "state not protected by a declared monitor is treated as thread-local")
	for _, u := range cfg.Unverified {
		as = append(as, "unverified surroundings: "+u)
	}
	var samples []any
	for i, o := range obs {
		if i%maxInt(1, len(obs)/4) == 0 && len(samples) < 5 {
			samples = append(samples, map[string]any{"obligation": o.Name, "kind": o.Kind, "clause": o.Text, "result": o.Result, "backend": o.Backend, "smt_file": o.File})
		}
	}
	cov := map[string]any{
		"obligations": nProof, "discharged": nDis,
		"checker_cmd":              fmt.Sprintf("./check %s --tier %s  (govc check -prop %s; per-obligation SMT-LIB queries under out/vc/%s, timeout %ds, portfolio z3-new|z3|cvc5)", cfg.ID, tier, cfg.ID, cfg.ID, to),
		"trusted_base":             tb,
		"functions_under_contract": funcs,
		"per_obligation":           obs,
		"vacuity_guards":           map[string]int{"total": nVac, "reachable": nVacOK},
		"known_findings_matched":   known,
		"solver_seconds":           solver,
		"backends":                 backends,
		"samples":                  samples,
		"tool_errors":              toolErrs,
		"bounded_standins":         boundedOrEmpty(bounded),
	}
	ev := map[string]any{
		"property_id": cfg.ID, "tier": tier, "seed": seed, "level": "proof", "coverage": cov, "assumptions": as, "wall_s": wall, "violations": len(violations),
	}
	_ = os.MkdirAll(filepath.Join(verifDir, "evidence"), 0o755)
	b, _ := json.MarshalIndent(ev, "", " ")
	_ = os.WriteFile(filepath.Join(verifDir, "evidence", cfg.ID+".json"), b, 0o644)
}

func maxInt(a, b int) int {
	if a > b {
		return a
	}
	return b
}

func boundedOrEmpty(b []map[string]any) any {
	if len(b) == 0 {
		return []any{}
	}
	return b
}
