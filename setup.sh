#!/bin/sh
# builds govc from sources on disk only (offline)
set -e
cd /verif/govc
export GOFLAGS=-mod=mod GOPROXY=off GOSUMDB=off GOTOOLCHAIN=local
go build -o /verif/bin/govc .
