package processorqueue

// Replays for property C06 against the real code (injected with go test -overlay by tools/overlay_test.sh).
// Each test FAILS when the defect is present.

import (
	"testing"
	"time"

	lunar_messages "lunar/engine/messages"
	lunar_context "lunar/engine/streams/lunar-context"
	public_types "lunar/engine/streams/public-types"
	stream_types "lunar/engine/streams/types"

	"github.com/rs/zerolog"
)

func mkReplayStream(id string) public_types.APIStreamI {
	return stream_types.NewRequestAPIStream(lunar_messages.OnRequest{ID: id, SequenceID: id, Method: "GET", URL: "a.com/x", Headers: map[string]string{}}, lunar_context.NewMemoryState[[]byte]())
}

// obligation: Request.SetProcessedTimeout / RequestWatcher.StopAll - exactly one signal per request.
// A request that already got its verdict is still in the watch map (it is removed asynchronously); shutdown must not signal it again.
func TestReplayC06StopAllAfterVerdict(t *testing.T) {
	defer func() {
		if r := recover(); r != nil {
			t.Fatalf("REPLAY confirmed: shutdown crashed: %v", r)
		}
	}()
	w := NewRequestsWatcher(time.Hour, zerolog.Nop())
	r := NewRequest(1, time.Hour, mkReplayStream("x"))
	w.AddRequest(r)
	if !r.StartProcessing() {
		t.Fatal("setup: StartProcessing failed")
	}
	r.SetProcessedSuccess()
	if !r.Wait() {
		t.Fatal("setup: verdict should be 'allowed'")
	}
	w.StopAll()
	if !r.Wait() {
		t.Fatalf("REPLAY confirmed: the verdict of an answered request changed at shutdown")
	}
}

// obligation: processQueueItem#ensures[arrival-order-kept] - a blocked head request that is re-enqueued keeps its place
// among requests of its own priority.
func TestReplayC06ArrivalOrderAfterReenqueue(t *testing.T) {
	q := lunar_context.NewMemoryQueue("k", time.Hour)
	_ = q.Enqueue("A", 1)
	time.Sleep(2 * time.Millisecond)
	_ = q.Enqueue("B", 1)
	first := q.DequeueIfValueRelevant()
	time.Sleep(2 * time.Millisecond)
	_ = q.Enqueue(first, 1) // what processQueueItem does when the quota blocks
	next := q.DequeueIfValueRelevant()
	if first != "A" || next != "A" {
		t.Fatalf("REPLAY confirmed: arrival order A,B; A popped, blocked and re-enqueued; next admitted is %s (want A)", next)
	}
}
