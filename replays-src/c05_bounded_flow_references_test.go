package validation

// Bounded stand-in for the part of C05 about flows that are connected to other flows ("processor -> flow X start",
// "flow X end -> processor"), whose builder (flowBuilder.build / buildFlow / buildConnection / incorporateFlow, mutually
// recursive) is not under contract:
//
//	the validator either accepts a set of flow files or rejects it with an error - it never recurses without end.
//
// Exhaustive over: 1..3 flows; for every ordered pair (A, B) including A == B the request direction of A either does not
// mention B, or sends its processor's "hit" branch into B's start, or takes B's end as its entry (all sets of 1 and 2
// flows, a fixed pseudo-random 27th of the sets of 3 flows). The REAL validator is
// executed on every set of files. An endless recursion is a fatal stack overflow, i.e. this test binary dies.
// Labelled bounded: never counted as proved.

import (
	"fmt"
	"os"
	"path/filepath"
	"strings"
	"testing"
)

// link[a][b]: 0 nothing, 1 "processor of a (hit) -> flow b start", 2 "flow b end -> processor of a"
func c05FlowFile(a int, n int, link [][]int) string {
	var b strings.Builder
	fmt.Fprintf(&b, "name: Flow%d\n\nfilter:\n  url: \"f%d.example.com/*\"\n\nprocessors:\n  Filter%d:\n    processor: Filter\n    parameters:\n      - key: url\n        value: \"*\"\n\nflow:\n  request:\n", a, a, a)
	entryFromFlow := false
	for t := 0; t < n; t++ {
		if link[a][t] == 2 {
			fmt.Fprintf(&b, "    - from:\n        flow:\n          name: Flow%d\n          at: end\n      to:\n        processor:\n          name: Filter%d\n\n", t, a)
			entryFromFlow = true
		}
	}
	if !entryFromFlow {
		fmt.Fprintf(&b, "    - from:\n        stream:\n          name: globalStream\n          at: start\n      to:\n        processor:\n          name: Filter%d\n\n", a)
	}
	hitUsed := false
	for t := 0; t < n; t++ {
		if link[a][t] == 1 && !hitUsed {
			fmt.Fprintf(&b, "    - from:\n        processor:\n          name: Filter%d\n          condition: hit\n      to:\n        flow:\n          name: Flow%d\n          at: start\n\n", a, t)
			hitUsed = true
		}
	}
	fmt.Fprintf(&b, "    - from:\n        processor:\n          name: Filter%d\n          condition: miss\n      to:\n        stream:\n          name: globalStream\n          at: end\n\n", a)
	b.WriteString("  response:\n    - from:\n        stream:\n          name: globalStream\n          at: start\n      to:\n        stream:\n          name: globalStream\n          at: end\n")
	return b.String()
}

func TestBoundedC05FlowReferencesNeverRecurseWithoutEnd(t *testing.T) {
	checked, accepted := 0, 0
	for n := 1; n <= 3; n++ {
		cells := n * n
		total := 1
		for i := 0; i < cells; i++ {
			total *= 3
		}
		for code := 0; code < total; code++ {
			if n == 3 && ((code*1103515245+12345)>>8)%27 != 0 {
				continue // thin out the largest class (a fixed pseudo-random 27th of it)
			}
			link := make([][]int, n)
			c := code
			for a := 0; a < n; a++ {
				link[a] = make([]int, n)
				for b := 0; b < n; b++ {
					link[a][b] = c % 3
					c /= 3
				}
			}
			root := t.TempDir()
			for _, d := range []string{"quotas", "flows", "path_params"} {
				if err := os.MkdirAll(filepath.Join(root, d), 0o755); err != nil {
					t.Fatal(err)
				}
			}
			for a := 0; a < n; a++ {
				if err := os.WriteFile(filepath.Join(root, "flows", fmt.Sprintf("flow%d.yaml", a)), []byte(c05FlowFile(a, n, link)), 0o600); err != nil {
					t.Fatal(err)
				}
			}
			// the line below is printed BEFORE the run: when the process dies of a stack overflow it is the last REPLAY line
			fmt.Printf("REPLAY checking flows=%d links=%v\n", n, link)
			var err error
			var panicked interface{}
			func() {
				defer func() { panicked = recover() }()
				err = NewValidator().WithValidationDir(root).Validate()
			}()
			checked++
			if panicked != nil {
				t.Fatalf("REPLAY the validator panicked (%v) on flows=%d links=%v", panicked, n, link)
			}
			if err == nil {
				accepted++
			}
		}
	}
	t.Logf("REPLAY bounded: %d sets of flow files checked, %d accepted", checked, accepted)
}
