package discovery

// Bounded stand-in for the part of C15 that the contracts do not reach: the per-batch extraction (ExtractAggs,
// extractEndpointAgg, countStatusCodes - written with samber/lo higher-order helpers) and the step from the per-operation
// laws of the combine functions (which ARE proved) to "the statistics do not depend on the batch boundaries".
//
// Exhaustive over: all record streams of length <= 3 over {GET,POST} x {a.com/x, a.com/y} x status {200,500} x duration
// {1,4,-1}, and of length 4 with the duration fixed, with distinct timestamps in rotated (not log) order, and every way of cutting the
// stream into two consecutive batches. For each:
//   - the REAL GetUpdatedAggregations is run batch by batch and once over the whole stream; the endpoint statistics must
//     agree (count, status-code counts, min/max time exactly; averages up to 1e-3);
//   - against an independent tally: count == number of records of the endpoint == sum of its status-code counts,
//     min/max are the extreme timestamps, the average duration is the true mean.
//
// Second test, with path-parameter inference switched on (the tree the plugin really uses: assumed path parameters,
// split threshold 2): streams of length <= 4 over GET x {a.com/u/1 .. a.com/u/4} x status {200,500}, every cut into two
// consecutive batches. URLs seen before the tree converges are re-keyed under the inferred parameter later, so the oracle
// here is the batch-free run itself plus conservation: the statistics after two batches equal the statistics of the
// whole stream (same endpoints, counts, status-code counts, min/max times), and the counts add up to the number of
// records.
//
// Third test, nested convergence: five URLs in which first an inner and later an outer path segment is merged under an
// inferred parameter (a.com/x/1/y/{1,2,3}, a.com/x/{2,3}/y/1), every stream of length <= 5 over them, every cut into
// two batches - the same oracle as the second test.
// Labelled bounded: never counted as proved.

import (
	"encoding/json"
	"fmt"
	"lunar/aggregation-plugin/common"
	sharedDiscovery "lunar/shared-model/discovery"
	"lunar/toolkit-core/urltree"
	"math"
	"os"
	"sort"
	"strings"
	"testing"
	"time"
)

func c15Tree() common.SimpleURLTreeI {
	return urltree.NewURLTree[common.EmptyStruct](false, 0)
}

func c15Approx(a, b float32) bool { return math.Abs(float64(a-b)) < 1e-3 }

func c15Check(t *testing.T, what string, got Agg, stream []AccessLog) {
	type tally struct {
		n, sumDur, sumTot int
		min, max          int64
		codes             map[int]int
	}
	want := map[sharedDiscovery.Endpoint]*tally{}
	for _, r := range stream {
		ep := sharedDiscovery.Endpoint{Method: r.Method, URL: r.URL}
		w := want[ep]
		if w == nil {
			w = &tally{min: r.Timestamp, max: r.Timestamp, codes: map[int]int{}}
			want[ep] = w
		}
		w.n++
		w.sumDur += r.Duration
		w.sumTot += r.TotalDuration
		if r.Timestamp < w.min {
			w.min = r.Timestamp
		}
		if r.Timestamp > w.max {
			w.max = r.Timestamp
		}
		w.codes[r.StatusCode]++
	}
	if len(got.Endpoints) != len(want) {
		t.Fatalf("REPLAY %s: %d endpoints reported, %d have traffic (stream %+v)", what, len(got.Endpoints), len(want), stream)
	}
	for ep, w := range want {
		g, ok := got.Endpoints[ep]
		if !ok {
			t.Fatalf("REPLAY %s: endpoint %+v lost (stream %+v)", what, ep, stream)
		}
		sum := 0
		for code, c := range g.StatusCodes {
			sum += int(c)
			if int(c) != w.codes[code] {
				t.Fatalf("REPLAY %s: endpoint %+v status %d counted %d times, %d records have it (stream %+v)", what, ep, code, c, w.codes[code], stream)
			}
		}
		if int(g.Count) != w.n || sum != w.n {
			t.Fatalf("REPLAY %s: endpoint %+v count=%d, sum of status counts=%d, records=%d (stream %+v)", what, ep, g.Count, sum, w.n, stream)
		}
		if g.MinTime != w.min || g.MaxTime != w.max {
			t.Fatalf("REPLAY %s: endpoint %+v min/max %d/%d, records say %d/%d (stream %+v)", what, ep, g.MinTime, g.MaxTime, w.min, w.max, stream)
		}
		if !c15Approx(g.AverageDuration, float32(w.sumDur)/float32(w.n)) || !c15Approx(g.AverageTotalDuration, float32(w.sumTot)/float32(w.n)) {
			t.Fatalf("REPLAY %s: endpoint %+v averages %v/%v, true means %v/%v (stream %+v)", what, ep, g.AverageDuration, g.AverageTotalDuration,
				float32(w.sumDur)/float32(w.n), float32(w.sumTot)/float32(w.n), stream)
		}
	}
}

func TestBoundedC15BatchBoundariesDoNotMatter(t *testing.T) {
	methods := []string{"GET", "POST"}
	urls := []string{"a.com/x", "a.com/y"}
	statuses := []int{200, 500}
	durations := []int{1, 4, -1} // -1: what HAProxy logs for a timer that never ran (still a record of the endpoint)
	checked := 0
	for n := 1; n <= 4; n++ {
		choices := len(methods) * len(urls) * len(statuses) * len(durations)
		if n == 4 {
			choices /= len(durations) // length 4: the duration is fixed
		}
		total := 1
		for i := 0; i < n; i++ {
			total *= choices
		}
		for code := 0; code < total; code++ {
			stream := make([]AccessLog, n)
			c := code
			for i := 0; i < n; i++ {
				d := c % choices
				c /= choices
				stream[i] = AccessLog{
					Timestamp:     int64(1000 + 10*((i+code)%n)), // a rotation of n distinct instants: records are not logged in time order
					Method:        methods[d%2],
					URL:           urls[(d/2)%2],
					StatusCode:    statuses[(d/4)%2],
					Duration:      durations[(d/8)%len(durations)],
					TotalDuration: durations[(d/8)%len(durations)] + 1,
					Interceptor:   "py/1.0",
					ConsumerTag:   "",
				}
			}
			once, err := GetUpdatedAggregations(Agg{}, stream, c15Tree())
			if err != nil {
				t.Fatalf("REPLAY whole stream: %v", err)
			}
			c15Check(t, "whole stream", once, stream)
			for cut := 1; cut < n; cut++ {
				tree := c15Tree()
				first, err := GetUpdatedAggregations(Agg{}, stream[:cut], tree)
				if err != nil {
					t.Fatalf("REPLAY first batch: %v", err)
				}
				both, err := GetUpdatedAggregations(first, stream[cut:], tree)
				if err != nil {
					t.Fatalf("REPLAY second batch: %v", err)
				}
				c15Check(t, "two batches", both, stream)
				checked++
			}
			checked++
		}
	}
	t.Logf("REPLAY bounded: %d (stream, batching) cases checked", checked)
}

func TestBoundedC15BatchBoundariesWithInferredPathParameters(t *testing.T) {
	c15Inferred(t, []string{"a.com/u/1", "a.com/u/2", "a.com/u/3", "a.com/u/4"}, []int{200, 500}, 4, "inferred path parameters")
}

func TestBoundedC15BatchBoundariesWithNestedConvergence(t *testing.T) {
	c15Inferred(t, []string{"a.com/x/1/y/1", "a.com/x/1/y/2", "a.com/x/1/y/3", "a.com/x/2/y/1", "a.com/x/3/y/1"}, []int{200}, 5, "nested convergence")
}

// c15Sig: the endpoint counts of a result, in a fixed order (part of the identity of a recorded known finding: the same
// case failing with ANOTHER outcome is a different failure)
func c15Sig(a Agg) string {
	var parts []string
	for ep, e := range a.Endpoints {
		parts = append(parts, fmt.Sprintf("%s=%d", ep.URL, e.Count))
	}
	sort.Strings(parts)
	return strings.Join(parts, ",")
}

func c15Inferred(t *testing.T, urls []string, statuses []int, maxLen int, label string) {
	choices := len(urls) * len(statuses)
	newTree := func() common.SimpleURLTreeI {
		tree, err := common.BuildTree(sharedDiscovery.KnownEndpoints{}, 2)
		if err != nil {
			t.Fatal(err)
		}
		return tree
	}
	same := func(a, b Agg) string {
		if len(a.Endpoints) != len(b.Endpoints) {
			return fmt.Sprintf("%d endpoints after two batches, %d for the whole stream: %+v vs %+v", len(a.Endpoints), len(b.Endpoints), a.Endpoints, b.Endpoints)
		}
		for ep, x := range a.Endpoints {
			y, ok := b.Endpoints[ep]
			if !ok {
				return fmt.Sprintf("endpoint %+v exists after two batches only", ep)
			}
			if x.Count != y.Count || x.MinTime != y.MinTime || x.MaxTime != y.MaxTime || len(x.StatusCodes) != len(y.StatusCodes) {
				return fmt.Sprintf("endpoint %+v differs: %+v after two batches, %+v for the whole stream", ep, x, y)
			}
			for code, c := range x.StatusCodes {
				if y.StatusCodes[code] != c {
					return fmt.Sprintf("endpoint %+v status %d: %d after two batches, %d for the whole stream", ep, code, c, y.StatusCodes[code])
				}
			}
		}
		return ""
	}
	// known findings (recorded defects of the code under test, identified by the failing case): listed in the file named by
	// VERIF_KNOWN_CASES, one "<label>|<url indices>|<cut>|<outcome of two batches><><outcome of one batch>" per line; a failing case that is not listed fails the test
	known := map[string]bool{}
	if p := os.Getenv("VERIF_KNOWN_CASES"); p != "" {
		if data, err := os.ReadFile(p); err == nil {
			for _, l := range strings.Split(string(data), "\n") {
				if l = strings.TrimSpace(l); l != "" && !strings.HasPrefix(l, "#") {
					known[l] = true
				}
			}
		}
	}
	knownHit, unknownFail := 0, 0
	checked := 0
	for n := 1; n <= maxLen; n++ {
		total := 1
		for i := 0; i < n; i++ {
			total *= choices
		}
		for code := 0; code < total; code++ {
			stream := make([]AccessLog, n)
			c := code
			for i := 0; i < n; i++ {
				d := c % choices
				c /= choices
				stream[i] = AccessLog{
					Timestamp: int64(1000 + 10*((i+code)%n)), Method: "GET", URL: urls[d%len(urls)], StatusCode: statuses[d/len(urls)],
					Duration: 3, TotalDuration: 4, Interceptor: "py/1.0", ConsumerTag: "",
				}
			}
			once, err := GetUpdatedAggregations(Agg{}, stream, newTree())
			if err != nil {
				t.Fatalf("REPLAY whole stream: %v", err)
			}
			sum := 0
			for _, e := range once.Endpoints {
				sum += int(e.Count)
				per := 0
				for _, k := range e.StatusCodes {
					per += int(k)
				}
				if per != int(e.Count) {
					t.Fatalf("REPLAY whole stream %+v: an endpoint counts %d requests and %d status codes", stream, e.Count, per)
				}
			}
			if sum != n {
				t.Fatalf("REPLAY whole stream %+v: %d records, the endpoints count %d", stream, n, sum)
			}
			for cut := 1; cut < n; cut++ {
				tree := newTree()
				first, err := GetUpdatedAggregations(Agg{}, stream[:cut], tree)
				if err != nil {
					t.Fatalf("REPLAY first batch: %v", err)
				}
				both, err := GetUpdatedAggregations(first, stream[cut:], tree)
				if err != nil {
					t.Fatalf("REPLAY second batch: %v", err)
				}
				if why := same(both, once); why != "" {
					id := label + "|"
					cc := code
					for i := 0; i < n; i++ {
						id += fmt.Sprintf("%d", cc%choices)
						cc /= choices
					}
					id += fmt.Sprintf("|%d|%s<>%s", cut, c15Sig(both), c15Sig(once))
					if known[id] {
						knownHit++
					} else {
						unknownFail++
						if unknownFail <= 5 {
							t.Errorf("REPLAY %s (case %s): %s (stream %+v)", label, id, why, stream)
						}
						if os.Getenv("VERIF_LIST_CASES") != "" {
							fmt.Println("CASE " + id)
						}
					}
				}
				checked++
			}
			checked++
		}
	}
	if unknownFail > 0 {
		t.Fatalf("REPLAY %s: %d failing (stream, batching) cases that are not recorded as known findings", label, unknownFail)
	}
	if knownHit > 0 {
		t.Logf("REPLAY KNOWN-FINDING %s: %d (stream, batching) cases fail as recorded", label, knownHit)
	}
	t.Logf("REPLAY bounded: %d (stream, batching) cases with %s checked", checked, label)
}

// Restart between batches: the state is written to its file after every batch and read back by a fresh plugin instance
// (State.InitializeState / Run, the persisted form and its time-stamp strings). The tests above keep the state in
// memory; this one sends every batch through the file, in three process time zones (UTC, +05:30, -08:00), and asks for
// the same thing: what is on file after the last batch is the statistics of the whole stream, whatever the cut.
// Whole-second time stamps (the persisted form keeps seconds).
func TestBoundedC15RestartBetweenBatchesInAnyTimeZone(t *testing.T) {
	zones := []*time.Location{time.UTC, time.FixedZone("plus0530", 5*3600+1800), time.FixedZone("minus0800", -8*3600)}
	base := int64(1700000000000)
	offsets := []int64{0, 20, 600}
	statuses := []int{200, 201}
	var alphabet []AccessLog
	for _, o := range offsets {
		for _, s := range statuses {
			alphabet = append(alphabet, AccessLog{Timestamp: base + o*1000, Duration: 10, TotalDuration: 12, StatusCode: s, Method: "GET", Host: "a.com",
				URL: "a.com/x", Interceptor: "lunar-aiohttp-interceptor/2.0.2", ConsumerTag: "c", RequestID: "r"})
		}
	}
	var streams [][]AccessLog
	var gen func(cur []AccessLog, n int)
	gen = func(cur []AccessLog, n int) {
		if len(cur) > 0 {
			streams = append(streams, append([]AccessLog{}, cur...))
		}
		if n == 0 {
			return
		}
		for _, a := range alphabet {
			gen(append(cur, a), n-1)
		}
	}
	gen(nil, 3)
	previous := time.Local
	defer func() { time.Local = previous }()
	dir := t.TempDir()
	checked := 0
	for zi, zone := range zones {
		time.Local = zone
		for si, stream := range streams {
			for cut := 0; cut <= len(stream); cut++ {
				if cut == len(stream) && cut != 0 && zi > 0 {
					continue // the uncut stream is the same run as cut == 0
				}
				path := fmt.Sprintf("%s/state-%d-%d-%d.json", dir, zi, si, cut)
				for _, batch := range [][]AccessLog{stream[:cut], stream[cut:]} {
					if len(batch) == 0 {
						continue
					}
					state := &State{DiscoverFilepath: path}
					if err := state.InitializeState(); err != nil {
						t.Fatalf("REPLAY InitializeState: %v", err)
					}
					records := make([]common.AccessLog, len(batch))
					for i := range batch {
						records[i] = common.AccessLog(batch[i])
					}
					if err := Run(state, records, c15Tree()); err != nil {
						t.Fatalf("REPLAY Run: %v", err)
					}
				}
				raw, err := os.ReadFile(path)
				if err != nil {
					t.Fatalf("REPLAY state file: %v", err)
				}
				out := sharedDiscovery.Output{}
				if err := json.Unmarshal(raw, &out); err != nil {
					t.Fatalf("REPLAY state file does not parse: %v", err)
				}
				c15Check(t, fmt.Sprintf("restart between batches, zone %s, cut %d", zone, cut), *ConvertFromPersisted(out), stream)
				_ = os.Remove(path)
				checked++
			}
		}
	}
	t.Logf("REPLAY bounded: %d (zone, stream, cut) histories through the state file checked", checked)
}
