"""Replay for C19 (obligation TrafficFilter.is_allowed#never-raises[decision-never-raises]).

The routing decision must never raise an error into the application. For an IPv6 literal (for instance the loopback
address "::1") _validate_ip accepts the string (ipaddress.ip_address parses IPv6), and _is_external_ip then builds an
IPv4Address from it, which raises ipaddress.AddressValueError out of is_allowed - inside the `with fail_safe:` block of
the hooks, where it is not one of the handled exception types, so it reaches the application.
Second input class (same obligation): a host name with an empty label or a label longer than 63 characters ("a..com").
socket.gethostbyname IDNA-encodes the name before resolving it and raises UnicodeError (a ValueError, not a socket error)
out of _is_external_domain, whose handler only names socket.error.
Exit status 1 while either defect is present, 0 otherwise.  usage: c19_ipv6_replay.py <repo-root>
"""
import logging, sys, os
root = sys.argv[1] if len(sys.argv) > 1 else "/repo"
sys.path.insert(0, os.path.join(root, "interceptors/lunar-py-interceptor/lunar_interceptor/src"))
import importlib.util
spec = importlib.util.spec_from_file_location(
    "traffic_filter", os.path.join(root, "interceptors/lunar-py-interceptor/lunar_interceptor/src/lunar_interceptor/interceptor/traffic_filter.py"))
tf = importlib.util.module_from_spec(spec); spec.loader.exec_module(tf)
flt = tf.TrafficFilter(None, None, logging.getLogger("replay"))
failed = False
for dest in ["::1", "fe80::1", "2001:db8::1"]:
    try:
        r = flt.is_allowed(dest, None)
        print("REPLAY is_allowed(%r) = %r" % (dest, r))
        if r and dest in ("::1", "fe80::1"):
            print("REPLAY loopback / link-local destination would be routed through the gateway"); failed = True
    except Exception as e:
        print("REPLAY is_allowed(%r) raised %s: %s" % (dest, type(e).__name__, e)); failed = True
for dest in ["a..com", "x" * 64 + ".example.com", ".leading.dot.example"]:
    try:
        r = flt.is_allowed(dest, None)
        print("REPLAY is_allowed(%r) = %r" % (dest if len(dest) < 40 else dest[:10] + "...", r))
        if r:
            print("REPLAY a destination that cannot be resolved would be routed through the gateway"); failed = True
    except Exception as e:
        print("REPLAY is_allowed(%r) raised %s: %s" % (dest if len(dest) < 40 else dest[:10] + "...", type(e).__name__, e)); failed = True
sys.exit(1 if failed else 0)
