package routing

// Bounded stand-in for C12 (labelled bounded, never counted as proved): the replay remedies key their stored responses on
// the URL and method of the message; routing.readRequestArgs / readResponseArgs, which hand them over, are trusted
// externs for the deductive check. Here the real entry points are driven with pairs of URLs that differ only in how a
// character is written (percent-encoded reserved or unreserved characters, case of the hex digits) plus identical
// controls: a response stored for one URL is replayed for exactly that URL.
//
// Property: a stored response is replayed only for the same method and URL (and selected
// path-parameter values), and only while fresh.
//
// The test drives the engine through its public SPOE entry points (the same functions the
// HAProxy agent handler calls) in legacy/policies mode: an on-response message stores a
// response, later on-request messages are answered from memory or forwarded.
//
// It uses two DIFFERENT provider resources whose URLs only differ in how a reserved
// character is written:
//
//	gitlab.example.com/api/v4/projects/group%2Fproject   (project "group/project", encoded id)
//	gitlab.example.com/api/v4/projects/group/project     (another resource, two path segments)

import (
	"lunar/engine/actions"
	"lunar/engine/config"
	"lunar/engine/runner"
	"lunar/engine/services"
	sharedConfig "lunar/shared-model/config"
	context_manager "lunar/toolkit-core/context-manager"
	"testing"
	"time"

	"github.com/negasus/haproxy-spoe-go/action"
	"github.com/negasus/haproxy-spoe-go/message"
	"github.com/negasus/haproxy-spoe-go/payload/kv"
	"github.com/stretchr/testify/require"
)

type c12bWriter struct{}

func (c12bWriter) Write(b []byte) (int, error) { return len(b), nil }
func (c12bWriter) Close() error                { return nil }

const (
	c12bEncodedURL = "gitlab.example.com/api/v4/projects/group%2Fproject"
	c12bPlainURL   = "gitlab.example.com/api/v4/projects/group/project"
)

func c12bManager(
	t *testing.T,
	remedy sharedConfig.Remedy,
) *HandlingDataManager {
	t.Helper()
	policiesConfig := &sharedConfig.PoliciesConfig{
		Endpoints: []sharedConfig.EndpointConfig{
			{
				URL:      "gitlab.example.com/api/v4/projects/*",
				Method:   "GET",
				Remedies: []sharedConfig.Remedy{remedy},
			},
		},
	}
	policiesData, err := config.BuildPolicyData(policiesConfig, false)
	require.NoError(t, err)

	policiesServices, err := services.Initialize(
		c12bWriter{}, 10*time.Second, sharedConfig.Exporters{})
	require.NoError(t, err)

	accessor := config.NewTxnPoliciesAccessor(policiesData)
	data := &HandlingDataManager{} //nolint:exhaustruct
	data.policiesServices = policiesServices
	data.diagnosisWorker = runner.NewDiagnosisWorker()
	data.configBuildResult = config.BuildResult{
		Accessor: &accessor,
		Initial:  policiesData,
	}
	return data
}

func c12bRequest(t *testing.T, data *HandlingDataManager, id, url string) action.Actions {
	t.Helper()
	keyValues := kv.NewKV()
	keyValues.Add("id", id)
	keyValues.Add("sequence_id", id)
	keyValues.Add("method", "GET")
	keyValues.Add("scheme", "https")
	keyValues.Add("url", url)
	keyValues.Add("path", url[len("gitlab.example.com"):])
	keyValues.Add("query", "")
	keyValues.Add("headers", "host: gitlab.example.com\r\n")
	keyValues.Add("body", []byte(""))
	res, err := processRequest(
		&message.Message{Name: "lunar-on-request", KV: keyValues}, data)
	require.NoError(t, err)
	return res
}

func c12bResponse(
	t *testing.T,
	data *HandlingDataManager,
	id, url string,
	status int64,
	headers, body string,
) {
	t.Helper()
	keyValues := kv.NewKV()
	keyValues.Add("id", id)
	keyValues.Add("sequence_id", id)
	keyValues.Add("method", "GET")
	keyValues.Add("scheme", "https")
	keyValues.Add("url", url)
	keyValues.Add("status", status)
	keyValues.Add("headers", headers)
	keyValues.Add("body", []byte(body))
	_, err := processResponse(
		&message.Message{Name: "lunar-on-response", KV: keyValues}, data)
	require.NoError(t, err)
}

// answeredFromMemory reports whether the engine told HAProxy to return an early response,
// and the body it told it to return.
func answeredFromMemory(spoeActions action.Actions) (bool, string) {
	early := false
	body := ""
	for _, spoeAction := range spoeActions {
		switch spoeAction.Name {
		case actions.ReturnEarlyResponseActionName:
			early, _ = spoeAction.Value.(bool)
		case actions.ResponseBodyActionName:
			if raw, ok := spoeAction.Value.([]byte); ok {
				body = string(raw)
			}
		}
	}
	return early, body
}


var c12bPairs = [][2]string{
	{"gitlab.example.com/api/v4/projects/group%2Fproject", "gitlab.example.com/api/v4/projects/group/project"},
	{"gitlab.example.com/api/v4/projects/a%41", "gitlab.example.com/api/v4/projects/aA"},
	{"gitlab.example.com/api/v4/projects/x%2e", "gitlab.example.com/api/v4/projects/x."},
	{"gitlab.example.com/api/v4/projects/x%2E", "gitlab.example.com/api/v4/projects/x%2e"},
	{"gitlab.example.com/api/v4/projects/q%3Fr", "gitlab.example.com/api/v4/projects/q"},
	{"gitlab.example.com/api/v4/projects/same", "gitlab.example.com/api/v4/projects/same"},
}

func TestBoundedC12StoredResponseIsReplayedOnlyForTheURLAsSent(t *testing.T) {
	ctxMng := context_manager.Get()
	ctxMng.SetMockClock()
	defer ctxMng.SetRealClock()
	checked := 0
	for pi, pair := range c12bPairs {
		for dir := 0; dir < 2; dir++ {
			stored, other := pair[dir], pair[1-dir]
			// caching
			data := c12bManager(t, sharedConfig.Remedy{ //nolint:exhaustruct
				Enabled: true,
				Name:    "cache projects",
				Config: sharedConfig.RemedyConfig{ //nolint:exhaustruct
					Caching: &sharedConfig.CachingConfig{RequestPayloadPaths: nil, TTLSeconds: 60, MaxRecordSizeBytes: 10_000, MaxCacheSizeMegabytes: 1},
				},
			})
			if early, _ := answeredFromMemory(c12bRequest(t, data, "txn-1", stored)); early {
				t.Fatalf("REPLAY pair %d: answered from memory before anything was stored", pi)
			}
			c12bResponse(t, data, "txn-1", stored, 200, "content-type: application/json\r\n", `{"stored-for": "`+stored+`"}`)
			ctxMng.GetMockClock().AdvanceTime(5 * time.Second)
			if early, _ := answeredFromMemory(c12bRequest(t, data, "txn-2", stored)); !early {
				t.Fatalf("REPLAY caching: the same URL %q within the TTL is not served from memory", stored)
			}
			early, body := answeredFromMemory(c12bRequest(t, data, "txn-3", other))
			if early != (other == stored) {
				t.Fatalf("REPLAY caching: a response stored for %q, then a request for %q: answered from memory = %v (body %q)", stored, other, early, body)
			}
			// response-based throttling
			data = c12bManager(t, sharedConfig.Remedy{ //nolint:exhaustruct
				Enabled: true,
				Name:    "respect retry-after",
				Config: sharedConfig.RemedyConfig{ //nolint:exhaustruct
					ResponseBasedThrottling: &sharedConfig.ResponseBasedThrottlingConfig{QuotaGroup: 1, RetryAfterHeader: "retry-after",
						RetryAfterType: sharedConfig.RetryAfterRelativeSeconds, RelevantStatuses: []int{429}},
				},
			})
			c12bResponse(t, data, "txn-1", stored, 429, "retry-after: 30\r\n", "slow down")
			ctxMng.GetMockClock().AdvanceTime(10 * time.Second)
			if early, _ := answeredFromMemory(c12bRequest(t, data, "txn-2", stored)); !early {
				t.Fatalf("REPLAY throttling: the throttled URL %q inside its retry-after window is not answered from memory", stored)
			}
			early, body = answeredFromMemory(c12bRequest(t, data, "txn-3", other))
			if early != (other == stored) {
				t.Fatalf("REPLAY throttling: a 429 stored for %q, then a request for %q: answered from memory = %v (body %q)", stored, other, early, body)
			}
			checked += 2
		}
	}
	t.Logf("REPLAY bounded: %d (URL pair, direction, remedy) histories checked", checked)
}
