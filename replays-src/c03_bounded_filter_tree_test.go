package streamfilter

// Bounded stand-in for the parts of C03 that the contracts reach only through an abstract trie model (trie insertion:
// urltree Insert/InsertDeclaredURL, splitURL and friends) composed with the proved traversal and qualification:
//
//	(1) the flows selected for a transaction do not depend on the order in which the flows were loaded;
//	(2) every selected flow's OWN filter accepts the transaction (URL pattern by an independent matcher, method);
//	(3) a flow whose filter accepts the transaction is selected unless a flow with a more specific URL pattern that
//	    also matches is configured (the engine applies the most specific matching nodes).
//
// Exhaustive over: every set of 1..3 flows out of 13 (URL pattern, method constraint) filters (one written with a trailing slash, two on a host written with an upper-case letter), EVERY load
// order, 11 request URLs (two of them on another host whose name starts with the same labels) x 2 methods. The REAL FilterTree.AddFlow / GetFlow run. Labelled bounded: never counted as proved.

import (
	"fmt"
	"sort"
	"strings"
	"testing"

	lunar_messages "lunar/engine/messages"
	stream_config "lunar/engine/streams/config"
	stream_flow "lunar/engine/streams/flow"
	lunar_context "lunar/engine/streams/lunar-context"
	public_types "lunar/engine/streams/public-types"
	stream_types "lunar/engine/streams/types"
)

// flow-mode URL semantics: literal segments, one-segment parameters, a trailing wildcard covers longer URLs (and a bare
// host is covered by host/*)
func c03URLMatches(pattern, url string) bool {
	ps := strings.Split(pattern, "/")
	us := strings.Split(url, "/")
	for i, p := range ps {
		if p == "*" {
			return i == len(ps)-1 && (len(us) > i || (i == 1 && len(us) == 1))
		}
		if i >= len(us) {
			return false
		}
		if strings.HasPrefix(p, "{") {
			continue
		}
		if p != us[i] {
			return false
		}
	}
	return len(ps) == len(us)
}

func c03Perms(n int) [][]int {
	if n == 1 {
		return [][]int{{0}}
	}
	var out [][]int
	for _, p := range c03Perms(n - 1) {
		for pos := 0; pos <= len(p); pos++ {
			q := append(append(append([]int{}, p[:pos]...), n-1), p[pos:]...)
			out = append(out, q)
		}
	}
	return out
}

type c03Filter struct {
	url    string
	method string // "" = any
}

func TestBoundedC03LoadOrderAndOwnFilter(t *testing.T) {
	filters := []c03Filter{
		{"a.com/*", ""}, {"a.com/*", "GET"}, {"a.com/x", ""}, {"a.com/x", "POST"}, {"a.com/{p}", "GET"},
		{"a.com/x/*", ""}, {"a.com/x/y", "GET"}, {"a.com/{p}/y", ""}, {"a.com", ""}, {"a.com/x/y/*", "POST"}, {"a.com/x/", "GET"},
		{"B.com/x", "GET"}, {"B.com/x", "POST"}, // a host written with an upper-case letter, declared twice
	}
	urls := []string{"a.com.evil/x", "a.com.evil", "B.com/x", "a.com", "a.com/x", "a.com/y", "a.com/x/y", "a.com/y/y", "a.com/x/z", "a.com/x/y/z", "a.com/y/z/w"}
	reqMethods := []string{"GET", "POST"}
	var sets [][]int
	for i := range filters {
		sets = append(sets, []int{i})
		for j := i + 1; j < len(filters); j++ {
			sets = append(sets, []int{i, j})
			for k := j + 1; k < len(filters); k++ {
				sets = append(sets, []int{i, j, k})
			}
		}
	}
	checked := 0
	for _, set := range sets {
		var first map[string]string
		for _, perm := range c03Perms(len(set)) {
			tree := NewFilterTree()
			byName := map[string]c03Filter{}
			for _, pi := range perm {
				f := filters[set[pi]]
				name := "F" + string(rune('0'+set[pi]))
				byName[name] = f
				cfg := &stream_config.Filter{Name: name, URL: f.url}
				if f.method != "" {
					cfg.Method = []string{f.method}
				}
				if err := tree.AddFlow(stream_flow.NewFlow(nil, &stream_config.FlowRepresentation{Name: name, Filter: cfg}, nil)); err != nil {
					t.Fatalf("REPLAY AddFlow(%+v): %v", f, err)
				}
			}
			got := map[string]string{}
			for _, u := range urls {
				for _, m := range reqMethods {
					s := stream_types.NewAPIStream("n", public_types.StreamTypeRequest, lunar_context.NewMemoryState[[]byte]())
					s.SetRequest(stream_types.NewRequest(lunar_messages.OnRequest{Method: m, Scheme: "https", URL: u, Headers: map[string]string{}}))
					s.SetContext(lunar_context.NewLunarContext(lunar_context.NewContext()))
					res, found := tree.GetFlow(s)
					var names []string
					if found {
						uf, _ := res.GetUserFlow()
						for _, f := range uf {
							names = append(names, f.GetName())
						}
					}
					sort.Strings(names)
					// (2) own filter
					for _, n := range names {
						f := byName[n]
						if !c03URLMatches(strings.Trim(f.url, "/"), u) || (f.method != "" && f.method != m) {
							t.Fatalf("REPLAY flows %v loaded in order %v: %s %s selects %s, whose own filter (%s %q) does not accept it", set, perm, m, u, n, f.url, f.method)
						}
					}
					got[m+" "+u] = strings.Join(names, ",")
					checked++
				}
			}
			if first == nil {
				first = got
				continue
			}
			for k, v := range got {
				if first[k] != v {
					t.Fatalf("REPLAY load order matters: flows %v, order %v, transaction %s: %q vs %q in another order", set, perm, k, v, first[k])
				}
			}
		}
	}
	t.Logf("REPLAY bounded: %d selections checked over %d sets of flows in every load order", checked, len(sets))
}

// Query-parameter constraints: the URL patterns and methods of the test above say nothing about the part of a filter
// that is decided on the transaction itself (streams/types: the request parses its query lazily and caches it). Small
// sets of flows on ONE pattern, each with a query constraint or none, every load order; requests whose query carries
// the wanted pair next to well-formed and malformed sibling pairs (a bare '%', a semicolon, a key without value, a
// repeated key). Oracle: an independent split of the raw query (pairs that do not decode are no parameters; the first
// value of a key counts). A flow must be selected exactly when its own constraint is met - also when it is the first
// flow evaluated on a freshly built transaction - and the selection must not depend on the load order.
func c03QueryFirst(raw, key string) (string, bool) {
	for _, pair := range strings.Split(raw, "&") {
		if pair == "" || strings.Contains(pair, ";") {
			continue
		}
		k, v := pair, ""
		if i := strings.Index(pair, "="); i >= 0 {
			k, v = pair[:i], pair[i+1:]
		}
		dk, ok1 := c03Unescape(k)
		dv, ok2 := c03Unescape(v)
		if !ok1 || !ok2 {
			continue
		}
		if dk == key {
			return dv, true
		}
	}
	return "", false
}

func c03Unescape(s string) (string, bool) {
	var b strings.Builder
	for i := 0; i < len(s); i++ {
		switch {
		case s[i] == '+':
			b.WriteByte(' ')
		case s[i] == '%':
			h := func(c byte) int {
				switch {
				case c >= '0' && c <= '9':
					return int(c - '0')
				case c >= 'a' && c <= 'f':
					return int(c-'a') + 10
				case c >= 'A' && c <= 'F':
					return int(c-'A') + 10
				}
				return -1
			}
			if i+2 >= len(s) || h(s[i+1]) < 0 || h(s[i+2]) < 0 {
				return "", false
			}
			b.WriteByte(byte(h(s[i+1])<<4 | h(s[i+2])))
			i += 2
		default:
			b.WriteByte(s[i])
		}
	}
	return b.String(), true
}

func TestBoundedC03QueryConstraints(t *testing.T) {
	type qf struct{ key, val string } // key "" = no query constraint
	filters := []qf{{"", ""}, {"y", "3"}, {"y", "4"}, {"z", "1"}}
	queries := []string{"", "y=3", "y=4", "z=1", "y=3&z=1", "z=1&y=3", "y=3&note=50%", "note=50%&y=3", "y=3&a;b", "a;b&y=3",
		"y", "y=", "y=3&y=4", "y=4&y=3", "y=%33", "z=1&note=%zz"}
	var sets [][]int
	for i := range filters {
		sets = append(sets, []int{i})
		for j := range filters {
			sets = append(sets, []int{i, j}) // the same constraint twice is a legal configuration
			for k := j + 1; k < len(filters); k++ {
				if i < j {
					sets = append(sets, []int{i, j, k})
				}
			}
		}
	}
	checked := 0
	for _, set := range sets {
		for _, q := range queries {
			var first string
			for pn, perm := range c03Perms(len(set)) {
				tree := NewFilterTree()
				want := []string{}
				for _, pi := range perm {
					f := filters[set[pi]]
					name := fmt.Sprintf("Q%d.%d", pi, set[pi])
					cfg := &stream_config.Filter{Name: name, URL: "a.com/x"}
					if f.key != "" {
						cfg.QueryParams = []public_types.KeyValue{{Key: f.key, Value: f.val}}
					}
					if err := tree.AddFlow(stream_flow.NewFlow(nil, &stream_config.FlowRepresentation{Name: name, Filter: cfg}, nil)); err != nil {
						t.Fatalf("REPLAY AddFlow(%+v): %v", f, err)
					}
					if v, ok := c03QueryFirst(q, f.key); f.key == "" || (ok && v == f.val) {
						want = append(want, name)
					}
				}
				s := stream_types.NewAPIStream("n", public_types.StreamTypeRequest, lunar_context.NewMemoryState[[]byte]())
				s.SetRequest(stream_types.NewRequest(lunar_messages.OnRequest{Method: "GET", Scheme: "https", URL: "a.com/x", Query: q, Headers: map[string]string{}}))
				s.SetContext(lunar_context.NewLunarContext(lunar_context.NewContext()))
				res, found := tree.GetFlow(s)
				names := []string{}
				if found {
					uf, _ := res.GetUserFlow()
					for _, f := range uf {
						names = append(names, f.GetName())
					}
				}
				sort.Strings(names)
				sort.Strings(want)
				if strings.Join(names, ",") != strings.Join(want, ",") {
					t.Fatalf("REPLAY query constraints %v loaded in order %v, request a.com/x?%s: selected %v, the flows whose own filter accepts it are %v", set, perm, q, names, want)
				}
				if pn == 0 {
					first = strings.Join(names, ",")
				} else if first != strings.Join(names, ",") {
					t.Fatalf("REPLAY load order matters: query constraints %v, order %v, request a.com/x?%s", set, perm, q)
				}
				checked++
			}
		}
	}
	t.Logf("REPLAY bounded: %d (set of query-constrained flows, load order, query) selections checked", checked)
}
