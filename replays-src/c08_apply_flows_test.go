package routing

// Replay for the C08 finding on PUT /apply_flows (obligation
// routing.HandlingDataManager.handleApplyFlows.func1#ensures[rolled-back-on-failure]).
//
// The scaffolding (scratch configuration tree, stub for HAProxy) is the one the independent sub-agent wrote for its
// demonstration of a seeded change on PUT /configuration.
//
// The tests drive the real PUT /configuration handler of the engine
// (HandlingDataManager.handleConfiguration) against a scratch configuration
// tree in a temporary directory.  HAProxy is replaced by a stub
// http.RoundTripper, so no network is used and nothing is timing dependent.

import (
	"bytes"
	"crypto/sha256"
	"encoding/base64"
	"encoding/json"
	"fmt"
	"io"
	"net/http"
	"net/http/httptest"
	"os"
	"path/filepath"
	"sort"
	"strings"
	"testing"

	"lunar/engine/metrics"

	"github.com/stretchr/testify/assert"
	"github.com/stretchr/testify/require"
)

// A flow that is known to be valid: it is the one used by the validator's own "valid" test case.
var c08FlowPath = filepath.Join("..", "streams", "validation", "testing-environments",
	"valid", "flows", "allow-block-list-sample.yaml")

func c08FlowYAML(t *testing.T) string {
	t.Helper()
	content, err := os.ReadFile(c08FlowPath)
	require.NoError(t, err)
	return string(content)
}

const (
	c08OldGatewayConfig = "trace_exporter:\n  exporter_id: old-exporter\n"
	c08NewGatewayConfig = "trace_exporter:\n  exporter_id: new-exporter\n"
)

// c08HaproxyStub answers every HAProxy admin / healthcheck call with 200 OK.
type c08HaproxyStub struct{}

func (c08HaproxyStub) RoundTrip(req *http.Request) (*http.Response, error) {
	return &http.Response{
		StatusCode: http.StatusOK,
		Status:     "200 OK",
		Proto:      "HTTP/1.1",
		ProtoMajor: 1,
		ProtoMinor: 1,
		Header:     make(http.Header),
		Body:       io.NopCloser(strings.NewReader("OK")),
		Request:    req,
	}, nil
}

type c08Gateway struct {
	root        string
	gatewayConf string
	manager     *HandlingDataManager
}

func c08SetEnv(t *testing.T, key, value string) {
	t.Helper()
	prev, had := os.LookupEnv(key)
	require.NoError(t, os.Setenv(key, value))
	t.Cleanup(func() {
		if had {
			_ = os.Setenv(key, prev)
		} else {
			_ = os.Unsetenv(key)
		}
	})
}

func newC08Gateway(t *testing.T) *c08Gateway {
	t.Helper()

	prevTransport := http.DefaultTransport
	http.DefaultTransport = c08HaproxyStub{}
	t.Cleanup(func() { http.DefaultTransport = prevTransport })

	root := t.TempDir()
	for _, dir := range []string{"flows", "quotas", "path_params"} {
		require.NoError(t, os.MkdirAll(filepath.Join(root, dir), 0o755))
	}

	gatewayConf := filepath.Join(root, "gateway_config.yaml")
	require.NoError(t, os.WriteFile(gatewayConf, []byte(c08OldGatewayConfig), 0o644))

	metricsConf, err := os.ReadFile(filepath.Join("..", "..", "..", "..", "metrics.yaml"))
	require.NoError(t, err)
	metricsPath := filepath.Join(root, "metrics.yaml")
	require.NoError(t, os.WriteFile(metricsPath, metricsConf, 0o644))

	processorsDir, err := filepath.Abs(filepath.Join("..", "streams", "processors", "registry"))
	require.NoError(t, err)

	c08SetEnv(t, "LUNAR_PROXY_FLOW_DIRECTORY", filepath.Join(root, "flows"))
	c08SetEnv(t, "LUNAR_PROXY_QUOTAS_DIRECTORY", filepath.Join(root, "quotas"))
	c08SetEnv(t, "LUNAR_FLOWS_PATH_PARAM_DIR", filepath.Join(root, "path_params"))
	c08SetEnv(t, "LUNAR_FLOWS_PATH_PARAM_CONFIG", filepath.Join(root, "generated_policies.yaml"))
	c08SetEnv(t, "LUNAR_PROXY_CONFIG", gatewayConf)
	c08SetEnv(t, "LUNAR_PROXY_METRICS_CONFIG", metricsPath)
	c08SetEnv(t, "LUNAR_PROXY_PROCESSORS_DIRECTORY", processorsDir)
	c08SetEnv(t, "DISCOVERY_STATE_LOCATION", filepath.Join(root, "discovery_state.json"))
	c08SetEnv(t, "REMEDY_STATE_LOCATION", filepath.Join(root, "remedy_state.json"))

	// Built directly instead of through NewHandlingDataManager: the constructor
	// only adds a syslog exporter connection (with real-time retries) that the
	// configuration path never uses.
	manager := &HandlingDataManager{proxyTimeout: 10} //nolint:exhaustruct
	manager.isStreamsEnabled = true
	manager.metricManager, err = metrics.NewMetricManager()
	require.NoError(t, err)
	require.NoError(t, manager.initializeStreams())

	return &c08Gateway{root: root, gatewayConf: gatewayConf, manager: manager}
}

func c08Fingerprint(content []byte) string {
	return fmt.Sprintf("%d bytes, sha256 %x", len(content), sha256.Sum256(content))
}

// snapshot returns relative path -> fingerprint of every user supplied configuration file.
func (g *c08Gateway) snapshot(t *testing.T) map[string]string {
	t.Helper()
	files := map[string]string{}
	for _, dir := range []string{"flows", "quotas", "path_params"} {
		err := filepath.Walk(filepath.Join(g.root, dir),
			func(path string, info os.FileInfo, err error) error {
				if err != nil || info.IsDir() {
					return err
				}
				content, readErr := os.ReadFile(path)
				if readErr != nil {
					return readErr
				}
				rel, _ := filepath.Rel(g.root, path)
				files[rel] = c08Fingerprint(content)
				return nil
			})
		require.NoError(t, err)
	}
	for _, file := range []string{"gateway_config.yaml", "metrics.yaml"} {
		content, err := os.ReadFile(filepath.Join(g.root, file))
		if err == nil {
			files[file] = c08Fingerprint(content)
		}
	}
	return files
}

func (g *c08Gateway) loadedFlowNames() []string {
	names := []string{}
	for _, filters := range g.manager.stream.GetSupportedFilters() {
		for _, filter := range filters {
			names = append(names, filter.GetURL())
		}
	}
	sort.Strings(names)
	return names
}


func c08B64(content string) string {
	return base64.StdEncoding.EncodeToString([]byte(content))
}

// PUT /apply_flows with a payload that is rejected (its flow does not pass validation): the update fails, so the
// configuration files on disk must be byte-for-byte what they were before, and the running flows as before.
// The test FAILS while the defect is present (the handler cleans every managed location and writes the payload without
// a backup, and restores nothing when the reload fails).
func TestReplayC08ApplyFlowsRejectedUpdateLeavesDiskUntouched(t *testing.T) {
	gateway := newC08Gateway(t)
	// the configuration that is running before the update: one valid flow and the gateway configuration
	require.NoError(t, os.WriteFile(filepath.Join(gateway.root, "flows", "running-flow.yaml"), []byte(c08FlowYAML(t)), 0o644))
	require.NoError(t, gateway.manager.reloadFlows())

	filesBefore := gateway.snapshot(t)
	flowsBefore := gateway.loadedFlowNames()

	body, err := json.Marshal(map[string]any{
		"flows": map[string]string{"broken-flow.yaml": c08B64("name: broken\nfilter:\n  url: \"*\"\nflow:\n  request:\n    - from:\n        processor:\n          name: doesNotExist\n      to:\n        stream:\n          name: globalStream\n          at: end\n")},
	})
	require.NoError(t, err)
	req := httptest.NewRequest(http.MethodPut, "/apply_flows", bytes.NewReader(body))
	rec := httptest.NewRecorder()
	gateway.manager.handleApplyFlows()(rec, req)

	require.NotEqual(t, http.StatusOK, rec.Code, "the broken flow must be rejected: %s", rec.Body.String())
	t.Logf("REPLAY response: %d %s", rec.Code, strings.TrimSpace(rec.Body.String()))
	assert.Equal(t, filesBefore, gateway.snapshot(t),
		"REPLAY a rejected update must leave the configuration files byte-for-byte as they were")
	assert.Equal(t, flowsBefore, gateway.loadedFlowNames(),
		"REPLAY a rejected update must leave the running flows as they were")
}
