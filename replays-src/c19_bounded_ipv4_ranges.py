"""Bounded stand-in for the part of C19 the contracts leave to a trusted frame: the classification of IPv4 addresses
(IPv4Network membership selected by the first two characters of the literal, traffic_filter._is_external_ip) and its use
behind name resolution.

    A destination that IS, or RESOLVES TO, a loopback or private-range address (10/8, 127/8, 172.16/12, 192.168/16) is
    never routed through the gateway; the decision never raises.

Exhaustive over: every first and second octet (65536 prefixes) x 6 tails (.0.0 .0.1 .16.1 .128.7 .255.254 .255.255), as a
literal passed to the REAL TrafficFilter.is_allowed (no lists, no header), and - for every private address among them
and a sample of the others - as the answer of a stubbed socket.gethostbyname for a host name (so the real resolution
path and its cache run). The oracle is integer arithmetic on the octets, independent of the ipaddress module.
Labelled bounded: never counted as proved.   usage: c19_bounded_ipv4_ranges.py <repo-root>; exit 1 on a counterexample.
"""
import importlib.util, logging, os, sys
root = sys.argv[1] if len(sys.argv) > 1 else "/repo"
path = os.path.join(root, "interceptors/lunar-py-interceptor/lunar_interceptor/src/lunar_interceptor/interceptor/traffic_filter.py")
spec = importlib.util.spec_from_file_location("traffic_filter", path)
tf = importlib.util.module_from_spec(spec); spec.loader.exec_module(tf)
logging.disable(logging.CRITICAL)


def private(a, b):
    return a == 10 or a == 127 or (a == 172 and 16 <= b <= 31) or (a == 192 and b == 168)


answers = {}
tf.gethostbyname = lambda host: answers[host]          # the name the module imported: resolution is stubbed, nothing else
flt = tf.TrafficFilter(None, None, logging.getLogger("bounded"))
tails = [(0, 0), (0, 1), (16, 1), (128, 7), (255, 254), (255, 255)]
checked = 0
for a in range(256):
    for b in range(256):
        for (c, d) in tails:
            ip = "%d.%d.%d.%d" % (a, b, c, d)
            try:
                r = flt.is_allowed(ip, None)
            except Exception as e:                      # noqa: BLE001
                print("REPLAY is_allowed(%r) raised %s: %s" % (ip, type(e).__name__, e)); sys.exit(1)
            if private(a, b) and r:
                print("REPLAY the private / loopback address %s would be routed through the gateway" % ip); sys.exit(1)
            checked += 1
            if private(a, b) or (b % 64 == 1 and (c, d) == (0, 1)):
                host = "h-%d-%d-%d-%d.example" % (a, b, c, d)
                answers[host] = ip
                for attempt in (1, 2):                  # the second call is answered from the cache
                    try:
                        r = flt.is_allowed(host, None)
                    except Exception as e:              # noqa: BLE001
                        print("REPLAY is_allowed(%r) [resolves to %s] raised %s: %s" % (host, ip, type(e).__name__, e)); sys.exit(1)
                    if private(a, b) and r:
                        print("REPLAY %s resolves to the private / loopback address %s and would be routed through the gateway (call %d)" % (host, ip, attempt)); sys.exit(1)
                    checked += 1
print("REPLAY bounded: %d decisions checked" % checked)
