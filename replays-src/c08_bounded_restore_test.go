package config

// Bounded stand-in for the disk-walking half of C08 that the contracts only describe through TRUSTED clauses
// (createFileSystemBackUp / backupDirectory / backupFile, cleanUpDirectory, filepath.Walk, the real os calls):
//
//	Backup, then any change of the managed files, then Restore: the managed files are byte-for-byte what they were
//	at Backup time - changed files get their old content back (nothing of the rejected content stays behind), deleted
//	files come back, files the rejected update added are removed.
//
// Exhaustive over: three managed locations, each absent / short content / long content before the backup, and each
// absent / short / long / other content after the rejected update: 27 x 64 = 1728 histories on the real file system (a
// temporary directory), the REAL Backup and Restore - once with the locations at the top level (a flow file, a quota
// file, the gateway configuration file) and once with two of them below a sub-directory of a managed directory
// (path_params/tenants/p.yaml, flows/team/f.yaml: SaveFlow and friends create such parents, the path-parameter loader
// reads them recursively). Labelled bounded: never counted as proved.

import (
	"os"
	"path/filepath"
	"testing"
)

func TestBoundedC08BackupChangeRestore(t *testing.T) {
	c08Histories(t, false)
}

func TestBoundedC08BackupChangeRestoreNested(t *testing.T) {
	c08Histories(t, true)
}

func c08Histories(t *testing.T, nested bool) {
	contents := []string{"", "short", "a much longer content than the short one, so that a tail could stay behind", "other"}
	checked := 0
	for before := 0; before < 27; before++ {
		for after := 0; after < 64; after++ {
			root := t.TempDir()
			flows := filepath.Join(root, "flows")
			quotas := filepath.Join(root, "quotas")
			params := filepath.Join(root, "params")
			for _, d := range []string{flows, quotas, params} {
				if err := os.MkdirAll(d, 0o755); err != nil {
					t.Fatal(err)
				}
			}
			paths := []string{filepath.Join(flows, "f.yaml"), filepath.Join(quotas, "q.yaml"), filepath.Join(root, "gateway_config.yaml")}
			if nested {
				paths = []string{filepath.Join(flows, "team", "f.yaml"), filepath.Join(params, "tenants", "p.yaml"), filepath.Join(quotas, "q.yaml")}
			}
			set := func(code, base int) {
				for _, p := range paths {
					c := code % base
					code /= base
					if c == 0 {
						_ = os.Remove(p)
						continue
					}
					if err := os.MkdirAll(filepath.Dir(p), 0o755); err != nil {
						t.Fatal(err)
					}
					if err := os.WriteFile(p, []byte(contents[c]), 0o644); err != nil {
						t.Fatal(err)
					}
				}
			}
			set(before, 3)
			fs := &FileSystemOperation{
				directories: map[string]string{flowsDirKey: flows, quotasDirKey: quotas, pathParamsDirKey: params},
				files:       map[string]string{gatewayConfigFileKey: filepath.Join(root, "gateway_config.yaml"), metricsConfigFileKey: filepath.Join(root, "metrics.yaml")},
				backUp:      newFileSystemBackUp(),
			}
			if err := fs.Backup(); err != nil {
				t.Fatalf("REPLAY backup: %v", err)
			}
			set(after, 4)
			if err := fs.Restore(); err != nil {
				t.Fatalf("REPLAY restore: %v", err)
			}
			code := before
			for _, p := range paths {
				c := code % 3
				code /= 3
				b, err := os.ReadFile(p)
				if c == 0 {
					if err == nil {
						t.Fatalf("REPLAY before=%d after=%d: %s did not exist at backup time and is there after the restore with %q", before, after, p, b)
					}
					continue
				}
				if err != nil || string(b) != contents[c] {
					t.Fatalf("REPLAY before=%d after=%d: %s should hold %q again, holds %q (err %v)", before, after, p, contents[c], b, err)
				}
			}
			checked++
		}
	}
	t.Logf("REPLAY bounded: %d backup/change/restore histories checked (nested locations: %v)", checked, nested)
}
