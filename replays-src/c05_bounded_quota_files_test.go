package validation

// Bounded stand-in for the quota-file half of C05, which the contracts do not reach (quota loading: YAML decoding,
// ToSingleQuotaResourceDataList, quotaResource.init and the quota trie):
//
//	the validator either accepts a quota file or rejects it with an error - it never panics.
//
// Exhaustive over: one quota plus 1..3 internal limits, every parent assignment of each limit to {the quota, any limit
// (itself included), an id that does not exist} and every order of the limits in the file; with and without a filter on
// the limits. The REAL validator (the code path the gateway uses to load quotas) is executed on each file.
// Labelled bounded: never counted as proved.

import (
	"fmt"
	"os"
	"path/filepath"
	"runtime/debug"
	"strings"
	"testing"
)

func c05QuotaFile(n int, parents []int, order []int, withFilter bool) string {
	var b strings.Builder
	b.WriteString(`quotas:
  - id: Root
    filter:
      url: c05-bounded.example.com/*
    strategy:
      fixed_window:
        max: 1000
        interval: 1
        interval_unit: minute

internal_limits:
`)
	name := func(i int) string {
		switch {
		case i == -1:
			return "Root"
		case i >= n:
			return "Missing"
		}
		return fmt.Sprintf("L%d", i)
	}
	for _, i := range order {
		fmt.Fprintf(&b, "  - id: %s\n    parent_id: %s\n", name(i), name(parents[i]))
		if withFilter {
			fmt.Fprintf(&b, "    filter:\n      header:\n        key: x-group\n        value: g%d\n", i)
		}
		fmt.Fprintf(&b, "    strategy:\n      fixed_window:\n        max: %d\n        interval: 1\n        interval_unit: minute\n\n", 10*(i+1))
	}
	return b.String()
}

func c05Permutations(n int) [][]int {
	if n == 1 {
		return [][]int{{0}}
	}
	var out [][]int
	for _, p := range c05Permutations(n - 1) {
		for pos := 0; pos <= len(p); pos++ {
			q := append(append(append([]int{}, p[:pos]...), n-1), p[pos:]...)
			out = append(out, q)
		}
	}
	return out
}

func TestBoundedC05QuotaFilesNeverPanic(t *testing.T) {
	checked, accepted := 0, 0
	for n := 1; n <= 3; n++ {
		choices := n + 2 // Root, L0..Ln-1, Missing
		total := 1
		for i := 0; i < n; i++ {
			total *= choices
		}
		for code := 0; code < total; code++ {
			parents := make([]int, n)
			c := code
			for i := range parents {
				parents[i] = c%choices - 1
				c /= choices
			}
			for _, order := range c05Permutations(n) {
				for _, withFilter := range []bool{false, true} {
					if n == 3 && withFilter && code%3 != 0 {
						continue // thin out the largest class
					}
					root := t.TempDir()
					for _, d := range []string{"quotas", "flows", "path_params"} {
						if err := os.MkdirAll(filepath.Join(root, d), 0o755); err != nil {
							t.Fatal(err)
						}
					}
					file := c05QuotaFile(n, parents, order, withFilter)
					if err := os.WriteFile(filepath.Join(root, "quotas", "quota.yaml"), []byte(file), 0o600); err != nil {
						t.Fatal(err)
					}
					var err error
					var panicked interface{}
					var stack string
					func() {
						defer func() {
							if r := recover(); r != nil {
								panicked = r
								stack = string(debug.Stack())
							}
						}()
						err = NewValidator().WithValidationDir(root).Validate()
					}()
					checked++
					if panicked != nil {
						t.Fatalf("REPLAY the validator panicked (%v) on this quota file instead of accepting or rejecting it:\n%s\n%s",
							panicked, file, stack)
					}
					if err == nil {
						accepted++
					}
				}
			}
		}
	}
	t.Logf("REPLAY bounded: %d quota files checked, %d accepted", checked, accepted)
}
