package streams

// Replay for the C05 known finding (obligation streams.Stream.executeFlow#pre[Stream.ExecuteFlow:ranked]).
//
// The flow below is ACCEPTED by the loader (Stream.Initialize runs the same validateFlow as validate_flows and the
// standalone flows-validator): its response direction has a valid root (globalStream start -> LogAPM -> end), so the
// cycle check starts there, and the cycle stepA -> stepB -> stepA is not reachable from that root. It is reachable from
// generateResponse, the processor that answers the request on the request side: after an early response the walk of the
// response direction resumes at generateResponse's connection target, i.e. inside the cycle, and never ends.
// The processors below count their executions and return an error after `cap` of them, so that the test terminates;
// without the cap the recursion is unbounded (fatal stack overflow of the engine process).
// The test FAILS while the defect is present (configuration accepted and more than 5 executions for one request); it
// passes when the configuration is rejected at validation time or handled with a bounded number of executions.

import (
	"fmt"
	lunar_messages "lunar/engine/messages"
	stream_config "lunar/engine/streams/config"
	test_processors "lunar/engine/streams/flow/test-processors"
	lunar_context "lunar/engine/streams/lunar-context"
	public_types "lunar/engine/streams/public-types"
	stream_types "lunar/engine/streams/types"
	"os"
	"path/filepath"
	"testing"

	"github.com/stretchr/testify/require"
)

const c05CycleFlowYAML = `name: CycleBehindEarlyResponse

filter:
  url: "maps.googleapis.com/maps/api/geocode/json"

processors:
  readCache:
    processor: readCache
  generateResponse:
    processor: generateResponse
  LogAPM:
    processor: LogAPM
  stepA:
    processor: LogAPM
  stepB:
    processor: LogAPM

flow:
  request:
    - from:
        stream:
          name: globalStream
          at: start
      to:
        processor:
          name: readCache
    - from:
        processor:
          name: readCache
          condition: cache_miss
      to:
        stream:
          name: globalStream
          at: end
    - from:
        processor:
          name: readCache
          condition: cache_hit
      to:
        processor:
          name: generateResponse

  response:
    - from:
        stream:
          name: globalStream
          at: start
      to:
        processor:
          name: LogAPM
    - from:
        processor:
          name: LogAPM
      to:
        stream:
          name: globalStream
          at: end
    - from:
        processor:
          name: generateResponse
      to:
        processor:
          name: stepA
    - from:
        processor:
          name: stepA
      to:
        processor:
          name: stepB
    - from:
        processor:
          name: stepB
      to:
        processor:
          name: stepA
`

const c05Cap = 200

var c05Executions int

type c05CountingProcessor struct{ name string }

func (p *c05CountingProcessor) Execute(_ string, _ public_types.APIStreamI) (stream_types.ProcessorIO, error) {
	c05Executions++
	if c05Executions > c05Cap {
		return stream_types.ProcessorIO{}, fmt.Errorf("replay cap of %d processor executions reached", c05Cap)
	}
	return stream_types.ProcessorIO{Type: public_types.StreamTypeAny, Name: ""}, nil
}
func (p *c05CountingProcessor) GetName() string { return p.name }
func (p *c05CountingProcessor) GetRequirement() *stream_types.ProcessorRequirement {
	return &stream_types.ProcessorRequirement{}
}

func newC05CountingProcessor(md *stream_types.ProcessorMetaData) (stream_types.ProcessorI, error) {
	return &c05CountingProcessor{name: md.Name}, nil
}

func TestReplayC05CycleBehindEarlyResponse(t *testing.T) {
	flowsDir := t.TempDir()
	require.NoError(t, os.WriteFile(filepath.Join(flowsDir, "cycle.yaml"), []byte(c05CycleFlowYAML), 0o600))
	procMng := createTestProcessorManagerWithFactories(t,
		[]string{"readCache", "generateResponse", "LogAPM"},
		test_processors.NewMockProcessorUsingCache,
		test_processors.NewMockGenerateResponseProcessor,
		newC05CountingProcessor, // every processor of type LogAPM (LogAPM, stepA, stepB) counts its executions
	)
	stream, err := NewStream()
	require.NoError(t, err)
	stream.processorsManager = procMng
	prev := setFlowRepDirectory(flowsDir)
	t.Cleanup(func() { revertFlowRepDirectory(prev) })

	// either the loader rejects the configuration (then there is nothing to run) ...
	if initErr := stream.Initialize(); initErr != nil {
		t.Logf("configuration rejected at validation time: %v", initErr)
		return
	}
	// ... or it accepts it, and then every transaction must be handled with a bounded number of executions

	globalContext := lunar_context.NewContextManager().GetGlobalContext()
	require.NoError(t, globalContext.Set(test_processors.GlobalKeyExecutionOrder, []string{}))
	require.NoError(t, globalContext.Set(test_processors.GlobalKeyCacheHit, true))

	apiStream := stream_types.NewAPIStream("APIStreamName", public_types.StreamTypeRequest, sharedState)
	apiStream.SetRequest(stream_types.NewRequest(lunar_messages.OnRequest{
		Method: "GET", Scheme: "https", URL: "maps.googleapis.com/maps/api/geocode/json", Headers: map[string]string{},
	}))
	apiStream.SetResponse(stream_types.NewResponse(lunar_messages.OnResponse{
		Status: 200, URL: "maps.googleapis.com/maps/api/geocode/json",
	}))
	apiStream.SetType(public_types.StreamTypeRequest)
	flowActions := &stream_config.StreamActions{
		Request: &stream_config.RequestStream{}, Response: &stream_config.ResponseStream{},
	}
	c05Executions = 0
	err = stream.ExecuteFlow(apiStream, flowActions)
	t.Logf("executions of the LogAPM-type processors (LogAPM, stepA, stepB) for one request: %d (cap %d), error returned: %v", c05Executions, c05Cap, err != nil)
	require.LessOrEqual(t, c05Executions, 5,
		"an accepted configuration must handle a transaction with a bounded number of processor executions; "+
			"here the walk of the response direction entered a cycle the validator never looked at")
}
