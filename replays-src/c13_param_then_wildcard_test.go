package config

// Replay for C13 (defect fixed by 2526315): with GET a.com/{p} declared, declaring POST a.com/* after GET a.com/* looked
// the pattern up, was led into the path parameter by the literal "*", and replaced the policy map of a.com/*: the GET
// policy of a.com/* was lost, depending on the declaration order. The test FAILS while the defect is present.

import (
	sharedConfig "lunar/shared-model/config"
	"lunar/toolkit-core/urltree"
	"testing"
)

func TestReplayC13SecondMethodOnWildcardAfterAPathParameter(t *testing.T) {
	decls := []sharedConfig.EndpointConfig{{URL: "a.com/*", Method: "GET"}, {URL: "a.com/{p}", Method: "GET"}, {URL: "a.com/*", Method: "POST"}}
	for _, order := range [][]int{{0, 1, 2}, {0, 2, 1}, {1, 0, 2}, {1, 2, 0}, {2, 0, 1}, {2, 1, 0}} {
		var d []sharedConfig.EndpointConfig
		for _, i := range order {
			d = append(d, decls[i])
		}
		tree, err := BuildEndpointPolicyTree(d)
		if err != nil {
			t.Fatal(err)
		}
		res := tree.Lookup("a.com/x/y")
		if res.Value == nil {
			t.Fatalf("REPLAY order %v: a.com/x/y matches nothing", order)
		}
		for _, m := range []string{"GET", "POST"} {
			if pol, ok := (*res.Value)[urltree.Method(m)]; !ok || pol.URL != "a.com/*" {
				t.Fatalf("REPLAY order %v: the %s policy declared for a.com/* is gone (found=%v %+v)", order, m, ok, pol)
			}
		}
	}
}
