package streamfilter

// Replay for C03 (obligation streamfilter.FilterTree.AddFlow#ensures[joins-only-its-own-url]).
//
// Flow W is declared on a.com/* and flow H on the bare host a.com. Loaded in the order W, H the lookup of H's URL
// "a.com" finds the WILDCARD node (a bare host matches host/*) and reports the normalised URL "a.com" - without the "*" -
// so AddFlow believes the node is H's own and adds H to the flows of a.com/*: H is then selected for a.com/x although its
// URL pattern does not match, and only in this load order.
// The test FAILS while the defect is present.

import (
	"fmt"
	"sort"
	"testing"

	lunar_messages "lunar/engine/messages"
	stream_config "lunar/engine/streams/config"
	stream_flow "lunar/engine/streams/flow"
	lunar_context "lunar/engine/streams/lunar-context"
	public_types "lunar/engine/streams/public-types"
	stream_types "lunar/engine/streams/types"
)

func c03Selected(t *testing.T, order []int, url string) []string {
	w := &stream_config.Filter{Name: "W", URL: "a.com/*"}
	h := &stream_config.Filter{Name: "H", URL: "a.com"}
	flows := []*stream_flow.Flow{
		stream_flow.NewFlow(nil, &stream_config.FlowRepresentation{Name: "W", Filter: w}, nil),
		stream_flow.NewFlow(nil, &stream_config.FlowRepresentation{Name: "H", Filter: h}, nil),
	}
	tree := NewFilterTree()
	for _, i := range order {
		if err := tree.AddFlow(flows[i]); err != nil {
			t.Fatalf("AddFlow: %v", err)
		}
	}
	s := stream_types.NewAPIStream("n", public_types.StreamTypeRequest, lunar_context.NewMemoryState[[]byte]())
	s.SetRequest(stream_types.NewRequest(lunar_messages.OnRequest{Method: "GET", Scheme: "https", URL: url, Headers: map[string]string{}}))
	s.SetContext(lunar_context.NewLunarContext(lunar_context.NewContext()))
	names := []string{}
	if res, found := tree.GetFlow(s); found {
		uf, _ := res.GetUserFlow()
		for _, f := range uf {
			names = append(names, f.GetName())
		}
	}
	sort.Strings(names)
	return names
}

func TestReplayC03HostFlowDoesNotJoinTheWildcardNode(t *testing.T) {
	for _, order := range [][]int{{0, 1}, {1, 0}} {
		got := c03Selected(t, order, "a.com/x")
		if fmt.Sprint(got) != "[W]" {
			t.Errorf("REPLAY load order %v: GET a.com/x selects %v, want [W] (H is declared on the bare host a.com, which a.com/x does not match)", order, got)
		}
	}
}
