package urltree

// Replay for C03 (obligation urltree.lookupFlow#ensures[own-node-only-when-the-whole-url-was-walked]).
//
// A flow declared on a.com/x must not be selected for a.com/x/y: the URL has an extra trailing segment and does not
// match the pattern. With the defect the traversal stops at the last part (no child "y" under "x"), its loop index then
// equals the index of the last part, and the value of the node reached - the node of a.com/x, one segment short - is
// returned as if the whole URL had been walked. (a.com/x/y/z is not affected: the walk stops before the last part.)
// The test FAILS while the defect is present.

import "testing"

func TestReplayC03ExtraTrailingSegmentDoesNotSelectTheShorterPattern(t *testing.T) {
	tree := NewURLTree[string](false, 0)
	v := "flow declared on a.com/x"
	if err := tree.InsertDeclaredURL("a.com/x", &v); err != nil {
		t.Fatal(err)
	}
	if got := tree.Traversal("a.com/x").Value; len(got) != 1 {
		t.Errorf("REPLAY Traversal(a.com/x) = %v, want the flow declared on a.com/x", got)
	}
	for _, u := range []string{"a.com/x/y", "a.com/x/y/z"} {
		if got := tree.Traversal(u).Value; len(got) != 0 {
			t.Errorf("REPLAY Traversal(%s) = %v: the flow declared on a.com/x is selected for a URL it does not match", u, got)
		}
	}
}
