package config

// Replay for C08 (obligations config.FileSystemOperation.Restore#ensures[restore-content] / [restore-extra]).
//
// Backup, then change one managed file, delete another and add a third, then Restore: the managed files must be
// byte-for-byte what they were at Backup time. With the defect Restore compares in the wrong direction (it asks the
// CURRENT snapshot for the files that differ from the backup and writes their CURRENT content back), so nothing is
// restored: the changed file keeps its new content, the deleted file stays deleted, the added file stays.
// The test FAILS while the defect is present.

import (
	"os"
	"path/filepath"
	"testing"
)

func TestReplayC08RestoreBringsBackTheBackedUpFiles(t *testing.T) {
	root := t.TempDir()
	flows := filepath.Join(root, "flows")
	quotas := filepath.Join(root, "quotas")
	params := filepath.Join(root, "params")
	for _, d := range []string{flows, quotas, params} {
		if err := os.MkdirAll(d, 0o755); err != nil {
			t.Fatal(err)
		}
	}
	gw := filepath.Join(root, "gateway_config.yaml")
	metrics := filepath.Join(root, "metrics.yaml")
	write := func(p, c string) {
		if err := os.WriteFile(p, []byte(c), 0o644); err != nil {
			t.Fatal(err)
		}
	}
	changed := filepath.Join(flows, "changed.yaml")
	deleted := filepath.Join(flows, "deleted.yaml")
	added := filepath.Join(quotas, "added.yaml")
	write(changed, "OLD")
	write(deleted, "KEEP ME")
	write(gw, "gateway: old")

	fs := &FileSystemOperation{
		directories: map[string]string{flowsDirKey: flows, quotasDirKey: quotas, pathParamsDirKey: params},
		files:       map[string]string{gatewayConfigFileKey: gw, metricsConfigFileKey: metrics},
		backUp:      newFileSystemBackUp(),
	}
	if err := fs.Backup(); err != nil {
		t.Fatalf("backup: %v", err)
	}

	// the update that is going to be rolled back
	write(changed, "NEW")
	if err := os.Remove(deleted); err != nil {
		t.Fatal(err)
	}
	write(added, "ADDED BY THE FAILED UPDATE")
	write(gw, "gateway: new")

	if err := fs.Restore(); err != nil {
		t.Fatalf("restore: %v", err)
	}

	read := func(p string) (string, bool) {
		b, err := os.ReadFile(p)
		if err != nil {
			return "", false
		}
		return string(b), true
	}
	if c, ok := read(changed); !ok || c != "OLD" {
		t.Errorf("REPLAY changed file: want \"OLD\", got %q (exists=%v)", c, ok)
	}
	if c, ok := read(deleted); !ok || c != "KEEP ME" {
		t.Errorf("REPLAY deleted file: want \"KEEP ME\", got %q (exists=%v)", c, ok)
	}
	if c, ok := read(gw); !ok || c != "gateway: old" {
		t.Errorf("REPLAY gateway config: want \"gateway: old\", got %q (exists=%v)", c, ok)
	}
	if c, ok := read(added); ok {
		t.Errorf("REPLAY file added by the failed update is still there with content %q", c)
	}
}
