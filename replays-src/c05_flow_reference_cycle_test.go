package validation

// Replay for C05 (defect fixed by 528d13d): two flows whose connections lead into each other made
// flowBuilder.incorporateFlow recurse until the stack overflowed (fatal error, the process dies) when the gateway or the
// standalone validator loaded them. With the defect this test binary crashes; without it the validator returns an error.

import (
	"os"
	"path/filepath"
	"testing"
)

const probeFlowA = `name: FlowA

filter:
  url: "a.example.com/*"

processors:
  FilterA:
    processor: Filter
    parameters:
      - key: url
        value: "*"

flow:
  request:
    - from:
        stream:
          name: globalStream
          at: start
      to:
        processor:
          name: FilterA

    - from:
        processor:
          name: FilterA
          condition: hit
      to:
        flow:
          name: FlowB
          at: start

    - from:
        processor:
          name: FilterA
          condition: miss
      to:
        stream:
          name: globalStream
          at: end

  response:
    - from:
        stream:
          name: globalStream
          at: start
      to:
        stream:
          name: globalStream
          at: end
`

const probeFlowB = `name: FlowB

filter:
  url: "b.example.com/*"

processors:
  FilterB:
    processor: Filter
    parameters:
      - key: url
        value: "*"

flow:
  request:
    - from:
        stream:
          name: globalStream
          at: start
      to:
        processor:
          name: FilterB

    - from:
        processor:
          name: FilterB
          condition: hit
      to:
        flow:
          name: FlowA
          at: start

    - from:
        processor:
          name: FilterB
          condition: miss
      to:
        stream:
          name: globalStream
          at: end

  response:
    - from:
        stream:
          name: globalStream
          at: start
      to:
        stream:
          name: globalStream
          at: end
`

func TestReplayC05MutuallyReferencingFlowsAreRejected(t *testing.T) {
	root := t.TempDir()
	for _, d := range []string{"quotas", "flows", "path_params"} {
		if err := os.MkdirAll(filepath.Join(root, d), 0o755); err != nil {
			t.Fatal(err)
		}
	}
	os.WriteFile(filepath.Join(root, "flows", "a.yaml"), []byte(probeFlowA), 0o600)
	os.WriteFile(filepath.Join(root, "flows", "b.yaml"), []byte(probeFlowB), 0o600)
	err := NewValidator().WithValidationDir(root).Validate()
	if err == nil {
		t.Fatalf("REPLAY two flows that lead into each other were accepted")
	}
	t.Logf("REPLAY validator returned: %v", err)
}
