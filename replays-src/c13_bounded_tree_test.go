package config

// Bounded stand-in for the parts of C13 that the contracts only reach through an abstract trie model: trie INSERTION
// (urltree Insert / InsertDeclaredURL, splitURL and friends are trusted there) together with the proved lookup:
//
//	(1) the outcome does not depend on the order in which endpoints are declared;
//	(2) when a request is matched, the reported normalised URL is a declared pattern that matches the request, the
//	    policies found were declared for that very pattern (and, per method, only there), and the extracted path
//	    parameters are the request's segments at the parameter positions.
//
// Exhaustive over: every set of 1..3 declarations out of 15 patterns (11 distinct, three repeated for a second method, one written with a trailing slash, one on a host written with an upper-case letter) (literals, one-segment parameters,
// trailing wildcards, overlapping), with methods GET/POST assigned by position, EVERY order of the set, 12 request URLs (two of them on another host whose name starts with the same labels).
// The REAL BuildEndpointPolicyTree and Lookup run; the matcher used as oracle for "matches" is independent (segment by
// segment). Labelled bounded: never counted as proved.

import (
	sharedConfig "lunar/shared-model/config"
	"lunar/toolkit-core/urltree"
	"sort"
	"strings"
	"testing"
)

func c13Matches(pattern, url string) (bool, map[string]string) {
	ps := strings.Split(strings.Trim(pattern, "/"), "/")
	us := strings.Split(strings.Trim(url, "/"), "/")
	params := map[string]string{}
	for i, p := range ps {
		if p == "*" {
			// trailing wildcard (policy mode, like the proxy's "(/.*)?"): the prefix itself and everything below it
			if i != len(ps)-1 {
				return false, nil
			}
			return len(us) >= i, params
		}
		if i >= len(us) {
			return false, nil
		}
		if strings.HasPrefix(p, "{") && strings.HasSuffix(p, "}") {
			params[p[1:len(p)-1]] = us[i]
			continue
		}
		if p != us[i] {
			return false, nil
		}
	}
	return len(ps) == len(us), params
}

func c13Perms(n int) [][]int {
	if n == 1 {
		return [][]int{{0}}
	}
	var out [][]int
	for _, p := range c13Perms(n - 1) {
		for pos := 0; pos <= len(p); pos++ {
			q := append(append(append([]int{}, p[:pos]...), n-1), p[pos:]...)
			out = append(out, q)
		}
	}
	return out
}

func TestBoundedC13DeclarationOrderAndOwnPattern(t *testing.T) {
	// (two patterns appear twice: the same pattern declared for two methods)
	patterns := []string{"a.com", "a.com/*", "a.com/x", "a.com/{p}", "a.com/x/*", "a.com/x/y", "a.com/{p}/y", "a.com/x/{q}", "a.com/{p}/*", "a.com/x/y/*", "a.com/*", "a.com/x", "a.com/x/", "B.com/x", "B.com/x"}
	urls := []string{"a.com.evil/x", "a.com.evil", "B.com/x", "a.com", "a.com/x", "a.com/y", "a.com/x/y", "a.com/y/y", "a.com/x/z", "a.com/y/z", "a.com/x/y/z", "a.com/y/z/w"}
	methods := []string{"GET", "POST", "GET"}
	checked := 0
	var sets [][]int
	for i := range patterns {
		sets = append(sets, []int{i})
		for j := i + 1; j < len(patterns); j++ {
			sets = append(sets, []int{i, j})
			for k := j + 1; k < len(patterns); k++ {
				sets = append(sets, []int{i, j, k})
			}
		}
	}
	for _, set := range sets {
		clash := false
		for a := range set {
			for b := a + 1; b < len(set); b++ {
				if strings.Trim(patterns[set[a]], "/") == strings.Trim(patterns[set[b]], "/") && methods[a] == methods[b] {
					clash = true // the same method declared twice for one pattern: which one wins is not part of the property
				}
			}
		}
		if clash {
			continue
		}
		type outcome struct {
			match bool
			norm  string
			pols  string
		}
		var first map[string]outcome
		for _, perm := range c13Perms(len(set)) {
			var decl []sharedConfig.EndpointConfig
			for _, pi := range perm {
				decl = append(decl, sharedConfig.EndpointConfig{URL: patterns[set[pi]], Method: methods[pi]})
			}
			tree, err := BuildEndpointPolicyTree(decl)
			if err != nil {
				t.Fatalf("REPLAY building the tree for %v failed: %v", decl, err)
			}
			got := map[string]outcome{}
			for _, u := range urls {
				res := tree.Lookup(u)
				o := outcome{match: res.Value != nil, norm: res.NormalizedURL}
				if res.Value != nil {
					var ps []string
					for m, pol := range *res.Value {
						ps = append(ps, string(m)+" "+pol.URL)
						// (2) every policy found was declared, with this method, for the pattern that is reported
						declared := false
						for _, d := range decl {
							if d.URL == pol.URL && urltree.Method(d.Method) == m {
								declared = true
							}
						}
						if !declared {
							t.Fatalf("REPLAY %v: lookup of %s returns a policy %s %s that was not declared", decl, u, m, pol.URL)
						}
						ok, params := c13Matches(strings.Trim(pol.URL, "/"), u)
						if !ok {
							t.Fatalf("REPLAY %v: lookup of %s returns the policy declared for %s, which does not match it", decl, u, pol.URL)
						}
						for name, v := range params {
							if res.PathParams[name] != v {
								t.Fatalf("REPLAY %v: lookup of %s under %s: path parameter %s = %q, the request's segment is %q", decl, u, pol.URL, name, res.PathParams[name], v)
							}
						}
					}
					sort.Strings(ps)
					o.pols = strings.Join(ps, ",")
				}
				got[u] = o
				checked++
			}
			if first == nil {
				first = got
				continue
			}
			for _, u := range urls {
				if first[u] != got[u] {
					t.Fatalf("REPLAY declaration order matters: set %v, order %v, url %s: %+v vs %+v in another order", set, perm, u, got[u], first[u])
				}
			}
		}
	}
	t.Logf("REPLAY bounded: %d lookups checked over %d declaration sets in every order", checked, len(sets))
}
