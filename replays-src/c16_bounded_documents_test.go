package obfuscation

// Bounded stand-in for the parts of C16 around the proved walk that are outside the verifier's reach: the exported
// entry point ObfuscateJSON (fastjson parsing, starting the walk at the root, serialising the result):
//
//	every string, number and boolean that does not lie on or under an excluded path is replaced by its hash; structure
//	(keys, nesting, array lengths) is preserved; values on excluded paths are kept verbatim; an exclusion for one path
//	never exposes a value at another path.
//
// Exhaustive over: all documents built from the shapes below (field names a/b repeated at different depths, arrays of
// objects, every primitive kind) x every set of at most two exclusions out of ten paths in both notations. The REAL
// ObfuscateJSON runs; the oracle is an independent walk over encoding/json's view of input and output.
//
// Second test: objects that carry the SAME member name more than once (RFC 8259 allows it, fastjson accepts it, written
// literally or with an escape, at the top, nested, inside arrays). Which of the repeated members survives is not part of
// the property; that none of their values reaches the output in clear text is: 9 documents x every set of at most two
// exclusions out of 5 paths that do not cover the repeated member.
// Labelled bounded: never counted as proved.

import (
	"crypto/md5"
	"encoding/json"
	"fmt"
	"hash/crc32"
	"strconv"
	"strings"
	"testing"
)

type boundedHasher struct{}

func (boundedHasher) HashBytes(b []byte) string { return fmt.Sprintf("H%08x", crc32.ChecksumIEEE(b)) }

func c16Excluded(cursor string, excl []string) bool {
	for _, p := range excl {
		if p == cursor {
			return true
		}
		if cursor != "" && (p == "$.request.body"+cursor || p == "$.response.body"+cursor) {
			return true
		}
	}
	return false
}

func c16Check(t *testing.T, in, out interface{}, cursor string, excl []string, under bool, doc string) {
	under = under || c16Excluded(cursor, excl)
	if under {
		a, _ := json.Marshal(in)
		b, _ := json.Marshal(out)
		if string(a) != string(b) {
			t.Fatalf("REPLAY value at %q is on an excluded path but was not kept verbatim: %s -> %s (doc %s, exclusions %v)", cursor, a, b, doc, excl)
		}
		return
	}
	switch v := in.(type) {
	case map[string]interface{}:
		o, ok := out.(map[string]interface{})
		if !ok || len(o) != len(v) {
			t.Fatalf("REPLAY object at %q lost its structure (doc %s, exclusions %v): %v", cursor, doc, excl, out)
		}
		for k, item := range v {
			oi, ok := o[k]
			if !ok {
				t.Fatalf("REPLAY key %q at %q disappeared (doc %s, exclusions %v)", k, cursor, doc, excl)
			}
			c16Check(t, item, oi, cursor+"."+k, excl, under, doc)
		}
	case []interface{}:
		o, ok := out.([]interface{})
		if !ok || len(o) != len(v) {
			t.Fatalf("REPLAY array at %q changed its length (doc %s, exclusions %v): %v", cursor, doc, excl, out)
		}
		for i := range v {
			c16Check(t, v[i], o[i], cursor+"[]", excl, under, doc)
		}
	default:
		var text string
		switch p := in.(type) {
		case string:
			text = p
		case float64:
			text = strconv.FormatFloat(p, 'f', 2, 64)
		case bool:
			text = strconv.FormatBool(p)
		case nil:
			text = "null"
		}
		want := boundedHasher{}.HashBytes([]byte(text))
		if got, ok := out.(string); !ok || got != want {
			t.Fatalf("REPLAY primitive at %q is not replaced by its hash: in %v out %v want %q (doc %s, exclusions %v)", cursor, in, out, want, doc, excl)
		}
	}
}

func TestBoundedC16DocumentsAndExclusions(t *testing.T) {
	prims := []string{`"s"`, `7`, `true`, `null`}
	var docs []string
	for _, p := range prims {
		docs = append(docs, p)
		docs = append(docs, fmt.Sprintf(`{"a":%s,"b":{"a":"x","b":%s}}`, p, p))
		docs = append(docs, fmt.Sprintf(`{"a":[%s,{"a":%s}],"b":"y"}`, p, p))
		docs = append(docs, fmt.Sprintf(`[{"a":%s,"b":[1,2]},{"b":{"a":%s}}]`, p, p))
	}
	paths := []string{"", ".a", ".b", ".b.a", ".b.b", ".a[]", ".a[].a", "$.request.body.a", "$.response.body.b.a", "$.request.body[].a", "[].a", "[].b"}
	var sets [][]string
	sets = append(sets, nil)
	for i := range paths {
		sets = append(sets, []string{paths[i]})
		for j := i + 1; j < len(paths); j++ {
			sets = append(sets, []string{paths[i], paths[j]})
		}
	}
	o := Obfuscator{Hasher: boundedHasher{}}
	checked := 0
	for _, doc := range docs {
		for _, excl := range sets {
			outText, err := o.ObfuscateJSON(doc, excl)
			if err != nil {
				t.Fatalf("REPLAY ObfuscateJSON failed on a valid document %s: %v", doc, err)
			}
			var in, out interface{}
			if err := json.Unmarshal([]byte(doc), &in); err != nil {
				t.Fatal(err)
			}
			if err := json.Unmarshal([]byte(outText), &out); err != nil {
				t.Fatalf("REPLAY output is not JSON: %s (doc %s, exclusions %v)", outText, doc, excl)
			}
			c16Check(t, in, out, "", excl, false, doc)
			checked++
		}
	}
	t.Logf("REPLAY bounded: %d (document, exclusion set) cases checked", checked)
}

func TestBoundedC16RepeatedMemberNames(t *testing.T) {
	docs := []string{
		`{"a":"SECRET1","a":"SECRET2"}`,
		`{"a":"SECRET1","b":"y","a":"SECRET2"}`,
		`{"c\u0061":"SECRET1","ca":"SECRET2"}`,
		`{"a":"x","a":{"b":"SECRET2","c":[7654321,"SECRET1"]}}`,
		`{"a":{"b":"SECRET1"},"a":{"b":"SECRET2"}}`,
		`[{"a":"SECRET1","a":"SECRET2"},{"a":7654321,"a":"SECRET2"}]`,
		`{"b":{"a":"SECRET1","a":"SECRET2","a":7654321}}`,
		`{"a":[1,2],"a":["SECRET1",{"a":"SECRET2","a":7654321}]}`,
		`{"a":7654321,"a":7654321}`,
	}
	paths := []string{".z", ".b.z", "$.request.body.z", "[].z", "$.response.body.a.z"}
	var sets [][]string
	sets = append(sets, nil)
	for i := range paths {
		sets = append(sets, []string{paths[i]})
		for j := i + 1; j < len(paths); j++ {
			sets = append(sets, []string{paths[i], paths[j]})
		}
	}
	o := Obfuscator{Hasher: boundedHasher{}}
	checked := 0
	for _, doc := range docs {
		for _, excl := range sets {
			out, err := o.ObfuscateJSON(doc, excl)
			if err != nil {
				t.Fatalf("REPLAY ObfuscateJSON failed on a valid document %s: %v", doc, err)
			}
			for _, secret := range []string{"SECRET1", "SECRET2", "7654321"} {
				if strings.Contains(out, secret) {
					t.Fatalf("REPLAY a value that is on no excluded path reaches the output in clear text: %s in %s (doc %s, exclusions %v)", secret, out, doc, excl)
				}
			}
			checked++
		}
	}
	t.Logf("REPLAY bounded: %d (document with repeated member names, exclusion set) cases checked", checked)
}

// The production hasher on values that already look like a digest: the document tests above use their own hasher, so
// the real MD5Hasher gets its own small table here (its contract MD5Hasher.HashBytes#the-digest-never-the-input is the
// unbounded statement). 32-hex strings of either case, near misses, empty and ordinary values, each alone and as a
// JSON string value through the exported entry point.
func TestBoundedC16ProductionHasherNeverReturnsItsInput(t *testing.T) {
	values := []string{
		"", "a", "true", "4111-1111-1111-1111",
		"0123456789abcdef0123456789abcdef", "0123456789ABCDEF0123456789ABCDEF", "d41d8cd98f00b204e9800998ecf8427e",
		"0123456789abcdef0123456789abcde", "0123456789abcdef0123456789abcdef0", "0123456789abcdef0123456789abcdeg",
		"ffffffffffffffffffffffffffffffff", "00000000000000000000000000000000",
	}
	o := Obfuscator{Hasher: MD5Hasher{}}
	for _, v := range values {
		want := fmt.Sprintf("%x", md5.Sum([]byte(v)))
		if got := (MD5Hasher{}).HashBytes([]byte(v)); got != want || got == v {
			t.Errorf("MD5Hasher.HashBytes(%q) = %q, want the digest %q", v, got, want)
		}
		doc, _ := json.Marshal(map[string]string{"k": v})
		out, err := o.ObfuscateJSON(string(doc), nil)
		if err != nil {
			t.Errorf("ObfuscateJSON(%s): %v", doc, err)
			continue
		}
		var m map[string]string
		if err := json.Unmarshal([]byte(out), &m); err != nil || m["k"] != want {
			t.Errorf("ObfuscateJSON(%s) = %s, want the value replaced by %q", doc, out, want)
		}
	}
}
