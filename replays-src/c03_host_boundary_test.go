package streamfilter

// Replay for C03: a flow whose filter is "a.com/*" was applied to transactions of ANOTHER HOST whose name starts with
// the same labels ("a.com.evil/x"; for the bare "a.com.evil" it was even selected twice). Fails while the defect is present.

import (
	"testing"

	lunar_messages "lunar/engine/messages"
	stream_config "lunar/engine/streams/config"
	stream_flow "lunar/engine/streams/flow"
	lunar_context "lunar/engine/streams/lunar-context"
	public_types "lunar/engine/streams/public-types"
	stream_types "lunar/engine/streams/types"
)

func TestReplayC03PathWildcardDoesNotCoverAnotherHost(t *testing.T) {
	tree := NewFilterTree()
	cfg := &stream_config.Filter{Name: "F", URL: "a.com/*"}
	if err := tree.AddFlow(stream_flow.NewFlow(nil, &stream_config.FlowRepresentation{Name: "F", Filter: cfg}, nil)); err != nil {
		t.Fatal(err)
	}
	selected := func(u string) int {
		s := stream_types.NewAPIStream("n", public_types.StreamTypeRequest, lunar_context.NewMemoryState[[]byte]())
		s.SetRequest(stream_types.NewRequest(lunar_messages.OnRequest{Method: "GET", Scheme: "https", URL: u, Headers: map[string]string{}}))
		s.SetContext(lunar_context.NewLunarContext(lunar_context.NewContext()))
		res, found := tree.GetFlow(s)
		if !found {
			return 0
		}
		uf, _ := res.GetUserFlow()
		return len(uf)
	}
	for _, u := range []string{"a.com/zzz", "a.com"} {
		if selected(u) != 1 {
			t.Fatalf("REPLAY %s does not select the flow declared for a.com/* exactly once (%d)", u, selected(u))
		}
	}
	for _, u := range []string{"a.com.evil/zzz", "a.com.evil", "a.com.evil.org/x/y"} {
		if n := selected(u); n != 0 {
			t.Fatalf("REPLAY a transaction for %s (another host) is handled by the flow declared for a.com/* (%d selections)", u, n)
		}
	}
}
