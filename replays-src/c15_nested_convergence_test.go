package discovery

// Replay for the C15 known finding "nested convergence": five records, two batches.
//
//	a.com/x/1/y/1  a.com/x/1/y/2  a.com/x/1/y/3 | a.com/x/2/y/1  a.com/x/3/y/1        (split threshold 2)
//
// Batch 1 merges the inner segment (a.com/x/1/y/{p}: 3 requests). Batch 2 merges the outer one; the state's endpoint
// a.com/x/1/y/{p} is re-keyed to a.com/x/{p1}/y/{p2} with all 3 requests. Processed as ONE batch, the record
// a.com/x/1/y/1 is keyed by the literal sibling a.com/x/{p1}/y/1 instead (the trie prefers a literal child), so that
// endpoint counts 3 and the doubly-merged one 2. Same records, same totals, different per-endpoint statistics: they
// depend on the batch boundaries. Exit: FAIL while the defect is present.

import (
	"lunar/aggregation-plugin/common"
	sharedDiscovery "lunar/shared-model/discovery"
	"testing"
)

func TestReplayC15NestedConvergenceDependsOnBatching(t *testing.T) {
	urls := []string{"a.com/x/1/y/1", "a.com/x/1/y/2", "a.com/x/1/y/3", "a.com/x/2/y/1", "a.com/x/3/y/1"}
	var stream []AccessLog
	for i, u := range urls {
		stream = append(stream, AccessLog{Timestamp: int64(1000 + 10*i), Method: "GET", URL: u, StatusCode: 200, Duration: 3, TotalDuration: 4, Interceptor: "py/1.0"})
	}
	newTree := func() common.SimpleURLTreeI {
		tr, err := common.BuildTree(sharedDiscovery.KnownEndpoints{}, 2)
		if err != nil {
			t.Fatal(err)
		}
		return tr
	}
	counts := func(a Agg) map[string]int {
		out := map[string]int{}
		for ep, e := range a.Endpoints {
			out[ep.URL] = int(e.Count)
		}
		return out
	}
	once, err := GetUpdatedAggregations(Agg{}, stream, newTree())
	if err != nil {
		t.Fatal(err)
	}
	tree := newTree()
	first, err := GetUpdatedAggregations(Agg{}, stream[:3], tree)
	if err != nil {
		t.Fatal(err)
	}
	both, err := GetUpdatedAggregations(first, stream[3:], tree)
	if err != nil {
		t.Fatal(err)
	}
	w, b := counts(once), counts(both)
	t.Logf("REPLAY one batch: %v", w)
	t.Logf("REPLAY two batches (3+2): %v", b)
	for k, v := range w {
		if b[k] != v {
			t.Fatalf("REPLAY endpoint %s counts %d requests when the records come as one batch and %d when they come as 3+2", k, v, b[k])
		}
	}
}
