package routing

// Bounded stand-in for C07 (labelled bounded, never counted as proved): what the PROCESSORS put into their actions is
// outside the deductive check (ProcessorI.Execute is trusted); the fold and the merge are proved. Here real processors
// are combined in small flows and the real entry point (routing.Handler) is driven with a full-request message: the
// encoding handed to the proxy is consistent - the content-length among the header edits is the length of the body that
// is sent (the later edit wins), and every processor's own edit (traceparent) is part of the union.

import (
	"context"
	"fmt"
	"lunar/engine/actions"
	"lunar/engine/metrics"
	"lunar/engine/utils/environment"
	"lunar/toolkit-core/configuration"
	context_manager "lunar/toolkit-core/context-manager"
	"os"
	"path/filepath"
	"strconv"
	"strings"
	"testing"

	spoe_action "github.com/negasus/haproxy-spoe-go/action"
	"github.com/negasus/haproxy-spoe-go/message"
	"github.com/negasus/haproxy-spoe-go/payload/kv"
	"github.com/negasus/haproxy-spoe-go/request"
	"github.com/stretchr/testify/require"
)

func c07bFlow(order []string) string {
	procs := map[string]string{
		"Traces":    "  Traces:\n    processor: UserDefinedTraces\n    parameters:\n      - key: trace_exporter_id\n        value: demo-exporter\n",
		"Sanitizer": "  Sanitizer:\n    processor: DataSanitation\n    parameters:\n      - key: blocklisted_entities\n        value: [\"email\"]\n",
	}
	y := "name: BoundedC07Flow\n\nfilter:\n  url: \"api.demo.com/*\"\n\nprocessors:\n"
	for _, p := range order {
		y += procs[p]
	}
	y += "\nflow:\n  request:\n    - from:\n        stream:\n          name: globalStream\n          at: start\n      to:\n        processor:\n          name: " + order[0] + "\n"
	for i := 0; i+1 < len(order); i++ {
		y += "    - from:\n        processor:\n          name: " + order[i] + "\n      to:\n        processor:\n          name: " + order[i+1] + "\n"
	}
	y += "    - from:\n        processor:\n          name: " + order[len(order)-1] + "\n      to:\n        stream:\n          name: globalStream\n          at: end\n"
	resp := ""
	for _, p := range order {
		if p == "Traces" {
			resp = p
		}
	}
	if resp == "" {
		return y + "  response: []\n"
	}
	y += "  response:\n    - from:\n        stream:\n          name: globalStream\n          at: start\n      to:\n        processor:\n          name: " + resp + "\n"
	y += "    - from:\n        processor:\n          name: " + resp + "\n      to:\n        stream:\n          name: globalStream\n          at: end\n"
	return y
}

// spoeVars decodes the SetVar actions returned to the proxy into name -> value.
func spoeVars(t *testing.T, acts spoe_action.Actions) map[string]interface{} {
	t.Helper()
	res := map[string]interface{}{}
	for _, act := range acts {
		require.Equal(t, spoe_action.TypeSetVar, act.Type)
		res[act.Name] = act.Value
	}
	return res
}

// parseDumpedHeaders is the inverse of utils.DumpHeaders ("k:v\n" lines).
func parseDumpedHeaders(dump string) map[string]string {
	res := map[string]string{}
	for _, line := range strings.Split(dump, "\n") {
		if line == "" {
			continue
		}
		parts := strings.SplitN(line, ":", 2)
		res[parts[0]] = parts[1]
	}
	return res
}


func TestBoundedC07RealProcessorsCombined(t *testing.T) {
	wd, err := os.Getwd()
	require.NoError(t, err)
	orders := [][]string{{"Traces", "Sanitizer"}, {"Sanitizer", "Traces"}, {"Traces"}}
	bodies := []string{`{"contact":"john.smith@example.com","note":"hello"}`, `{"a":"x@y.io","b":"someone.else@example.org"}`, `{"note":"nothing to hide"}`, `{}`}
	checked := 0
	for oi, order := range orders {
		tmp := t.TempDir()
		flowsDir := filepath.Join(tmp, "flows")
		require.NoError(t, os.MkdirAll(flowsDir, 0o755))
		require.NoError(t, os.WriteFile(filepath.Join(flowsDir, "flow.yaml"), []byte(c07bFlow(order)), 0o600))
		quotasDir := filepath.Join(tmp, "quotas")
		require.NoError(t, os.MkdirAll(quotasDir, 0o755))
		gatewayConfigPath := filepath.Join(tmp, "gateway_config.yaml")
		require.NoError(t, configuration.EncodeYAML(gatewayConfigPath, &environment.GatewayConfig{
			TraceExporter: environment.TraceExporter{TraceExporterID: "demo-exporter", TracesEndpoint: "http://tempo:4317"},
		}))
		restore := []func(){}
		pf := environment.SetStreamsFlowsDirectory(flowsDir)
		restore = append(restore, func() { environment.SetStreamsFlowsDirectory(pf) })
		pq := environment.SetQuotasDirectory(quotasDir)
		restore = append(restore, func() { environment.SetQuotasDirectory(pq) })
		pg := environment.SetGatewayConfigPath(gatewayConfigPath)
		restore = append(restore, func() { environment.SetGatewayConfigPath(pg) })
		pp := environment.SetProcessorsDirectory(filepath.Join(wd, "..", "streams", "processors", "registry"))
		restore = append(restore, func() { environment.SetProcessorsDirectory(pp) })
		t.Setenv("LUNAR_FLOWS_PATH_PARAM_CONFIG", filepath.Join(tmp, "known_endpoints.yaml"))
		context_manager.Get().WithContext(context.Background())
		handlingDataManager := NewHandlingDataManager(10, nil)
		handlingDataManager.isStreamsEnabled = true
		metricManager, _ := metrics.NewMetricManager()
		handlingDataManager.metricManager = metricManager
		require.NoError(t, initializeFlows(handlingDataManager), "flow %v must be accepted", order)
		messageHandler := Handler(handlingDataManager)
		for bi, body := range bodies {
			headers := fmt.Sprintf("host: api.demo.com\r\ncontent-type: application/json\r\ncontent-length: %d\r\n", len(body))
			keyValues := kv.NewKV()
			id := fmt.Sprintf("c07b-%d-%d", oi, bi)
			keyValues.Add("id", id)
			keyValues.Add("sequence_id", id)
			keyValues.Add("method", "POST")
			keyValues.Add("scheme", "https")
			keyValues.Add("url", "api.demo.com/users")
			keyValues.Add("path", "/users")
			keyValues.Add("query", "")
			keyValues.Add("headers", headers)
			keyValues.Add("body", []byte(body))
			req := request.Request{Messages: &message.Messages{{Name: "lunar-on-full-request", KV: keyValues}}}
			messageHandler(&req)
			vars := spoeVars(t, req.Actions)
			dumped, hasHeaders := vars[actions.RequestHeadersActionName].(string)
			sentBody, hasBody := vars[actions.RequestBodyActionName].([]byte)
			if hasHeaders {
				sent := parseDumpedHeaders(dumped)
				if cl, ok := sent["content-length"]; ok {
					want := len(body)
					if hasBody {
						want = len(sentBody)
					}
					if cl != strconv.Itoa(want) {
						t.Fatalf("REPLAY flow %v, body %q: content-length handed to the proxy is %s, the body that goes on has %d bytes (the later edit must win)", order, body, cl, want)
					}
				}
				for _, p := range order {
					if p == "Traces" && sent["traceparent"] == "" {
						t.Fatalf("REPLAY flow %v, body %q: the trace processor's header edit is not part of the union: %v", order, body, sent)
					}
				}
			}
			if hasBody && strings.Contains(string(sentBody), "@example.") {
				t.Fatalf("REPLAY flow %v, body %q: the sanitizer's body did not reach the proxy: %q", order, body, sentBody)
			}
			checked++
		}
		for i := len(restore) - 1; i >= 0; i-- {
			restore[i]()
		}
	}
	t.Logf("REPLAY bounded: %d (flow of real processors, body) requests through routing.Handler checked", checked)
}
