package config

// Replay for C13 (obligation config.BuildEndpointPolicyTree#loop1.inv[policies-on-their-own-pattern].preserved).
//
// Declaring `GET a.com/*` and then `POST a.com/x`: while building the tree the lookup of the new URL a.com/x finds the
// wildcard node (a.com/x matches a.com/*), the code then writes the POST policy of a.com/x INTO THE WILDCARD NODE'S MAP and
// stores that same map at the new node. Afterwards a POST to any other URL under a.com/ - which only the wildcard
// matches, and for which nothing was declared for POST - gets the policy that was declared for a.com/x.
// The test FAILS while the defect is present.

import (
	sharedConfig "lunar/shared-model/config"
	"lunar/toolkit-core/urltree"
	"testing"
)

func TestReplayC13PolicyLeaksIntoWildcardNode(t *testing.T) {
	for _, order := range [][]sharedConfig.EndpointConfig{
		{
			{URL: "a.com/*", Method: "GET"},
			{URL: "a.com/x", Method: "POST"},
		},
		{
			{URL: "a.com/x", Method: "POST"},
			{URL: "a.com/*", Method: "GET"},
		},
	} {
		tree, err := BuildEndpointPolicyTree(order)
		if err != nil {
			t.Fatalf("building the tree failed: %v", err)
		}
		res := tree.Lookup("a.com/y")
		if res.Value == nil {
			t.Fatalf("a.com/y should match the wildcard declaration")
		}
		if pol, found := (*res.Value)[urltree.Method("POST")]; found {
			t.Errorf("REPLAY declaration order %v %v: POST a.com/y is given the policy declared for %q (nothing was declared for POST on a.com/*)",
				order[0].Method+" "+order[0].URL, order[1].Method+" "+order[1].URL, pol.URL)
		}
		if pol, found := (*res.Value)[urltree.Method("GET")]; !found || pol.URL != "a.com/*" {
			t.Errorf("REPLAY GET a.com/y should get the wildcard policy, got %+v found=%v", pol, found)
		}
	}
}
