package config

// Replay for C13 (and C03): a policy declared for "a.com/*" was applied to requests for ANOTHER HOST whose name merely
// starts with the same labels ("a.com.evil/x", "a.com.evil"): the trie let the path wildcard cover a host label, and the
// reported normalised URL ("a.com.*") was not a declared pattern. Fails while the defect is present.

import (
	sharedConfig "lunar/shared-model/config"
	"testing"
)

func TestReplayC13PathWildcardDoesNotCoverAnotherHost(t *testing.T) {
	tree, err := BuildEndpointPolicyTree([]sharedConfig.EndpointConfig{{URL: "a.com/*", Method: "GET"}})
	if err != nil {
		t.Fatal(err)
	}
	for _, u := range []string{"a.com/zzz", "a.com"} {
		if r := tree.Lookup(u); r.Value == nil {
			t.Fatalf("REPLAY %s is not matched by the declared pattern a.com/*", u)
		}
	}
	for _, u := range []string{"a.com.evil/zzz", "a.com.evil", "a.com.evil.org/x/y"} {
		if r := tree.Lookup(u); r.Value != nil {
			t.Fatalf("REPLAY the request URL %s (another host) gets the policies declared for a.com/*, reported as %q", u, r.NormalizedURL)
		}
	}
}
