package queue

// Replay for property C10 (obligation processQueueItems#select1.default[no-strand]) against the real code.
// Needs the schedule "the waiter is popped before it parks": tools/replay_c10.sh overlays a copy of
// in_memory_delayed_priority_queue.go with one added line `verifYield("enqueue:unlocked")` after the unlock in Enqueue.
// The test FAILS when the defect is present.

import (
	"testing"
	"time"

	"lunar/toolkit-core/clock"
	"lunar/toolkit-core/logging"

	"github.com/rs/zerolog"
)

func TestReplayC10LostHandoff(t *testing.T) {
	mc := clock.NewMockClock()
	key := QueueKey{RemedyName: "r", Strategy: Strategy{WindowQuota: 1, WindowSize: time.Second}}
	dpq := NewInMemoryDelayedPriorityQueue(key, mc, logging.ContextLogger{Logger: zerolog.Nop()})
	if ok, _ := dpq.Enqueue(NewRequest("first", 1, mc), 10*time.Second, 10); !ok {
		t.Fatal("setup: the first request takes the window's only slot")
	}
	hold := make(chan struct{})
	reached := make(chan struct{})
	verifYield = func(string) { close(reached); <-hold }
	res := make(chan bool)
	go func() {
		ok, _ := dpq.Enqueue(NewRequest("waiter", 1, mc), 10*time.Second, 10)
		res <- ok
	}()
	<-reached // the waiter is on the heap, the mutex is released, it is not yet parked on its done channel
	popped := false
	for i := 0; i < 50 && !popped; i++ {
		mc.AdvanceTime(100 * time.Millisecond)
		time.Sleep(2 * time.Millisecond)
		dpq.mutex.Lock()
		popped = dpq.queue.Len() == 0
		dpq.mutex.Unlock()
	}
	if !popped {
		t.Fatal("setup: the roll-over did not pop the waiter")
	}
	close(hold)
	for i := 0; i < 200; i++ {
		mc.AdvanceTime(100 * time.Millisecond)
		time.Sleep(time.Millisecond)
		select {
		case ok := <-res:
			if !ok {
				t.Fatalf("REPLAY confirmed: the waiter's turn came (window quota free, heap empty) but it was never signalled and was rejected after ~%d ms of mock time (TTL 10 s, window 1 s)", (i+1)*100)
			}
			return
		default:
		}
	}
	t.Fatal("REPLAY inconclusive: the waiter did not return")
}
