package streamflow

// Bounded stand-in for the contract the C05 proofs assume for the validator's cycle check
// (detectCircularConnections + dfsDetectCycles + cloneVisitsMap, which clone a map per edge and are outside the
// verifier's reach):
//
//	detectCircularConnections(d) == nil  <=>  no cycle of processor->processor connections among the nodes of d
//
// (no cycle <=> the nodes admit a rank that strictly decreases along every connection: the `ranked` ghost fields).
// Exhaustive: every digraph on <= 3 nodes whose ordered pairs carry no edge, an edge with the empty condition or an edge
// with condition "a" (self loops included), and every digraph on 4 nodes with unconditioned edges; request and response
// directions; the nodes are assigned to one or two flows (a direction holds the nodes of incorporated flows too) in every
// way for <= 3 nodes. The REAL functions are executed; the oracle is an independent three-colour DFS.
// Labelled bounded: never counted as proved.

import (
	publictypes "lunar/engine/streams/public-types"
	"testing"
)

func c05BuildDirection(n int, edge func(i, j int) (bool, string), ft publictypes.StreamType, flowOf func(i int) string) *FlowDirection {
	nodes := make([]*FlowGraphNode, n)
	for i := range nodes {
		nodes[i] = &FlowGraphNode{flowGraphName: flowOf(i), processorKey: string(rune('A' + i))}
	}
	d := &FlowDirection{flowName: "f", flowType: ft, nodes: map[string]*FlowGraphNode{}}
	for i := 0; i < n; i++ {
		for j := 0; j < n; j++ {
			if ok, cond := edge(i, j); ok {
				nodes[i].edges = append(nodes[i].edges, &ConnectionEdge{node: nodes[j], condition: cond})
			}
		}
		d.nodes[nodes[i].processorKey] = nodes[i]
	}
	return d
}

func c05HasCycle(n int, edge func(i, j int) (bool, string)) bool {
	colour := make([]int, n)
	var visit func(i int) bool
	visit = func(i int) bool {
		colour[i] = 1
		for j := 0; j < n; j++ {
			if ok, _ := edge(i, j); ok {
				if colour[j] == 1 || (colour[j] == 0 && visit(j)) {
					return true
				}
			}
		}
		colour[i] = 2
		return false
	}
	for i := 0; i < n; i++ {
		if colour[i] == 0 && visit(i) {
			return true
		}
	}
	return false
}

func TestBoundedC05CycleCheckAgreesWithAcyclicity(t *testing.T) {
	checked := 0
	run := func(n, options int) {
		pairs := n * n
		total := 1
		for i := 0; i < pairs; i++ {
			total *= options
		}
		for code := 0; code < total; code++ {
			digits := make([]int, pairs)
			c := code
			for i := range digits {
				digits[i] = c % options
				c /= options
			}
			edge := func(i, j int) (bool, string) {
				switch digits[i*n+j] {
				case 1:
					return true, ""
				case 2:
					return true, "a"
				}
				return false, ""
			}
			want := c05HasCycle(n, edge)
			// the nodes of a direction may come from several flows (a flow incorporated into another one): every assignment
			// of the nodes to two flows for n <= 3, "all one flow" and "alternating" for n == 4
			assignments := 1 << n
			if n == 4 {
				assignments = 2
			}
			for asg := 0; asg < assignments; asg++ {
				flowOf := func(i int) string {
					bit := (asg >> i) & 1
					if n == 4 {
						bit = asg * (i % 2)
					}
					if bit == 1 {
						return "g"
					}
					return "f"
				}
				for _, ft := range []publictypes.StreamType{publictypes.StreamTypeRequest, publictypes.StreamTypeResponse} {
					got := detectCircularConnections(c05BuildDirection(n, edge, ft, flowOf)) != nil
					checked++
					if got != want {
						t.Fatalf("n=%d code=%d (digits %v, type %v, nodes-to-flows %b): detectCircularConnections reports cycle=%v, the graph has cycle=%v",
							n, code, digits, ft, asg, got, want)
					}
				}
			}
		}
	}
	run(1, 3)
	run(2, 3)
	run(3, 3)
	run(4, 2)
	t.Logf("REPLAY bounded: %d directions checked", checked)
}
