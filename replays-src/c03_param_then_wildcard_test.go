package streamfilter

// Replay for C03 (defect fixed by 2526315, obligation urltree.lookupNode#ensures[declared-wildcard-pattern-finds-its-own-node]).
//
// With a flow on a.com/{p} in the tree, adding a second flow on a.com/* looked the pattern up, was led into the path
// parameter by the literal "*" segment, did not find the node of a.com/* and REPLACED it: the flow loaded first on
// a.com/* was silently dropped. Which flows run for GET a.com/x/y then depended on the load order.
// The test FAILS while the defect is present.

import (
	"fmt"
	"sort"
	"testing"

	lunar_messages "lunar/engine/messages"
	stream_config "lunar/engine/streams/config"
	stream_flow "lunar/engine/streams/flow"
	lunar_context "lunar/engine/streams/lunar-context"
	public_types "lunar/engine/streams/public-types"
	stream_types "lunar/engine/streams/types"
)

func TestReplayC03SecondWildcardFlowAfterAPathParameter(t *testing.T) {
	type fl struct{ name, url, method string }
	all := []fl{{"AnyOnWildcard", "a.com/*", ""}, {"GetOnWildcard", "a.com/*", "GET"}, {"GetOnParam", "a.com/{p}", "GET"}}
	for _, order := range [][]int{{0, 1, 2}, {0, 2, 1}, {1, 0, 2}, {1, 2, 0}, {2, 0, 1}, {2, 1, 0}} {
		tree := NewFilterTree()
		for _, i := range order {
			f := all[i]
			cfg := &stream_config.Filter{Name: f.name, URL: f.url}
			if f.method != "" {
				cfg.Method = []string{f.method}
			}
			if err := tree.AddFlow(stream_flow.NewFlow(nil, &stream_config.FlowRepresentation{Name: f.name, Filter: cfg}, nil)); err != nil {
				t.Fatal(err)
			}
		}
		s := stream_types.NewAPIStream("n", public_types.StreamTypeRequest, lunar_context.NewMemoryState[[]byte]())
		s.SetRequest(stream_types.NewRequest(lunar_messages.OnRequest{Method: "GET", Scheme: "https", URL: "a.com/x/y", Headers: map[string]string{}}))
		s.SetContext(lunar_context.NewLunarContext(lunar_context.NewContext()))
		res, found := tree.GetFlow(s)
		var names []string
		if found {
			uf, _ := res.GetUserFlow()
			for _, f := range uf {
				names = append(names, f.GetName())
			}
		}
		sort.Strings(names)
		if fmt.Sprint(names) != "[AnyOnWildcard GetOnWildcard]" {
			t.Fatalf("REPLAY load order %v: GET a.com/x/y runs %v, want both flows declared on a.com/*", order, names)
		}
	}
}
