package urltree

// Replay for C03 (obligation urltree.lookupFlow#ensures[own-node-included]).
//
// Flows are declared on a.com/x and on a.com/x/*. A request to a.com/x satisfies the first flow's URL pattern exactly,
// and no more specific literal pattern is configured - it must be selected. With the defect the traversal skips the
// value of the URL's own node whenever that node also has a wildcard child, and does not collect that wildcard either:
// the request gets NO flow at all.
// The test FAILS while the defect is present.

import "testing"

func TestReplayC03OwnNodeSelectedAlthoughItHasAWildcardChild(t *testing.T) {
	tree := NewURLTree[string](false, 0)
	own, wild := "flow on a.com/x", "flow on a.com/x/*"
	if err := tree.InsertDeclaredURL("a.com/x", &own); err != nil {
		t.Fatal(err)
	}
	if err := tree.InsertDeclaredURL("a.com/x/*", &wild); err != nil {
		t.Fatal(err)
	}
	got := tree.Traversal("a.com/x").Value
	found := false
	for _, v := range got {
		if v == own {
			found = true
		}
	}
	if !found {
		t.Errorf("REPLAY Traversal(a.com/x) = %v: the flow declared on a.com/x is not selected for a.com/x", got)
	}
	if got := tree.Traversal("a.com/x/y").Value; len(got) != 1 || got[0] != wild {
		t.Errorf("REPLAY Traversal(a.com/x/y) = %v, want only the wildcard flow", got)
	}
}
