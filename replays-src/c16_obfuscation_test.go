package obfuscation

// Replay for property C16 (obligation isCursorInExcludedPath#ensures[excluded-only-same-path]) against the real code.
// The test FAILS when an exclusion for one path exposes a value at a different path.

import (
	"fmt"
	"hash/crc32"
	"strings"
	"testing"
)

type replayHasher struct{}

func (replayHasher) HashBytes(b []byte) string { return fmt.Sprintf("H%08x", crc32.ChecksumIEEE(b)) }

func TestReplayC16ExclusionExposesOtherPath(t *testing.T) {
	o := Obfuscator{Hasher: replayHasher{}}
	doc := `{"name":"top-secret","user":{"name":"bob","age":3}}`
	for _, ex := range []string{"$.request.body.user.name", ".user.name"} {
		out, err := o.ObfuscateJSON(doc, []string{ex})
		if err != nil {
			t.Fatal(err)
		}
		if strings.Contains(out, "top-secret") {
			t.Fatalf("REPLAY confirmed: exclusion %q (path .user.name) left the top-level field .name in clear: %s", ex, out)
		}
		if !strings.Contains(out, `"bob"`) {
			t.Fatalf("the excluded value .user.name must be kept verbatim: %s", out)
		}
	}
}
