package streamfilter

// Replay for property C03 (obligation FilterNode.isMethodQualified#ensures[own-filter]) against the real code.
// F1 (no method filter) and F2 (GET only) on one URL; a POST request must be matched by F1 only, in both load orders.
// The test FAILS when the selection depends on the load order / applies F2 to a POST.

import (
	"fmt"
	"testing"

	lunar_messages "lunar/engine/messages"
	stream_config "lunar/engine/streams/config"
	stream_flow "lunar/engine/streams/flow"
	lunar_context "lunar/engine/streams/lunar-context"
	public_types "lunar/engine/streams/public-types"
	stream_types "lunar/engine/streams/types"
)

func TestReplayC03FirstFlowShortcut(t *testing.T) {
	for _, order := range [][2]int{{0, 1}, {1, 0}} {
		f1 := &stream_config.Filter{Name: "F1", URL: "api.x.com/p"}
		f2 := &stream_config.Filter{Name: "F2", URL: "api.x.com/p", Method: []string{"GET"}}
		flows := []*stream_flow.Flow{
			stream_flow.NewFlow(nil, &stream_config.FlowRepresentation{Name: "F1", Filter: f1}, nil),
			stream_flow.NewFlow(nil, &stream_config.FlowRepresentation{Name: "F2", Filter: f2}, nil),
		}
		tree := NewFilterTree()
		_ = tree.AddFlow(flows[order[0]])
		_ = tree.AddFlow(flows[order[1]])
		s := stream_types.NewAPIStream("n", public_types.StreamTypeRequest, lunar_context.NewMemoryState[[]byte]())
		s.SetRequest(stream_types.NewRequest(lunar_messages.OnRequest{Method: "POST", Scheme: "https", URL: "api.x.com/p", Headers: map[string]string{}}))
		s.SetContext(lunar_context.NewLunarContext(lunar_context.NewContext()))
		res, found := tree.GetFlow(s)
		names := []string{}
		if found {
			uf, _ := res.GetUserFlow()
			for _, f := range uf {
				names = append(names, f.GetName())
			}
		}
		if fmt.Sprint(names) != "[F1]" {
			t.Fatalf("REPLAY confirmed: load order %v, POST request -> flows %v (want [F1]: F2 only accepts GET)", order, names)
		}
	}
}
