#!/usr/bin/env python3
"""Regenerates /verif/MANIFEST.json from tools/claims.json (claimed checks) and properties.jsonl."""
import json, os, subprocess
V = '/verif'
claims = json.load(open(f'{V}/tools/claims.json'))
props = [json.loads(l) for l in open(f'{V}/properties.jsonl')]
hooks = subprocess.run(['git','-C','/repo','log','--format=%H','--grep=^verif hook'],capture_output=True,text=True).stdout.split()[::-1]
m = {
 "version": 1,
 "setup_cmd": "cd /verif && ./setup.sh",
 "hooks": {
  "guard": "verif",
  "enable": "contracts are //@ comments in comment-only files zz_contracts_verif.go (//go:build verif) next to the code; govc loads the packages with -tags=verif. For the Python interceptor (no build tags in Python) they are #@ comments in comment-only files zz_contracts*_verif.py that are never imported. No executable hook code is needed for the proofs.",
  "baseline_off_cmd": "for m in $(cat /w/out/gomods.txt); do MF=$(cd /repo/$m && . /w/out/goenv.sh && gomodflag); (cd /repo/$m && go test $MF -json -vet=off -count=1 -timeout 25m ./...); done",
  "source_commits": hooks,
  "add_only": True
 },
 "engines": [{
  "name": "govc", "path": "/verif/govc",
  "serves_properties": sorted(k for k in claims['checks'].keys() if k != 'C19'),
  "kind_free_text": "contract-based deductive verifier for Go written for this task: go/packages (typed AST of /repo's working tree, tag verif) -> forward symbolic execution with state merging (= weakest-precondition VCs) against //@ contracts -> one SMT-LIB query per named obligation -> z3 / z3-new / cvc5 portfolio"
 }, {
  "name": "pyvc", "path": "/verif/pyvc",
  "serves_properties": ["C19"],
  "kind_free_text": "contract-based deductive verifier for a subset of Python written for this task (second front end): ast of the real source -> symbolic execution of every path incl. exceptional ones against #@ contracts kept in comment-only files next to the source -> one z3 query per obligation (z3 Python API, tooling venv python3-vt)"
 }],
 "checks": [],
 "notes": claims.get('notes', ''),
 "not_applicable": []
}
def bounded_note(pid):
    try:
        pr = json.load(open(f'{V}/props/{pid}.json'))
    except Exception:
        return ''
    b = pr.get('bounded') or []
    if not b:
        return ''
    return ' Bounded stand-ins run by the same check (labelled bounded in the evidence, never counted as proved): ' + '; '.join(x['name'] for x in b) + '.'

for p in props:
    pid = p['id']
    if pid in claims['checks']:
        c = claims['checks'][pid]
        m['checks'].append({
         "property_id": pid,
         "quick_cmd": f"./check {pid}",
         "thorough_cmd": f"./check {pid} --tier thorough",
         "evidence_file": f"/verif/evidence/{pid}.json",
         "replay_cmd_template": "./replay {path}",
         "engine": "pyvc" if pid == 'C19' else "govc",
         "level_claimed": {"category": "proof", "text": c['text'], "design_ref": c.get('design_ref', f"DESIGN.md §6 {pid}")},
         "level_note": c['note'] + bounded_note(pid),
         "technique": c.get('technique', "contract-based deductive verification: #@ contracts on the real Python methods, VCs generated from the ast by symbolic execution, discharged by z3" if pid == 'C19' else "contract-based deductive verification: //@ contracts on the real Go functions, VCs generated from the typed AST, discharged by z3/cvc5")
        })
    else:
        m['not_applicable'].append({"property_id": pid, "reason": claims['not_applicable'].get(pid, "check not built yet (build in progress; DESIGN §9)")})
json.dump(m, open(f'{V}/MANIFEST.json', 'w'), indent=1)
print("checks:", [c['property_id'] for c in m['checks']])
