#!/bin/sh
# tools/selftest.sh [prop ...]: every recorded mutant must make its property's check exit 1 (must-fail corpus);
# then the unchanged tree must exit 0. /repo is restored after each mutant.
if ! git -C /repo diff --quiet; then echo "REFUSING: /repo has uncommitted changes to tracked files (commit the contract files first)"; exit 9; fi
cd /verif
props="$@"; [ -z "$props" ] && props=$(ls selftest/mutants)
fail=0
for p in $props; do
  for m in selftest/mutants/$p/*.patch; do
    [ -f "$m" ] || continue
    git -C /repo apply "/verif/$m" || { echo "MUTANT-DOES-NOT-APPLY $m"; fail=1; continue; }
    ./check $p -timeout ${SELFTEST_TIMEOUT:-10} -no-evidence > /tmp/selftest.$$.log 2>&1; rc=$?
    git -C /repo checkout -- .
    n=$(grep -c '^VIOLATION' /tmp/selftest.$$.log)
    first=$(grep -m1 'FAILED' /tmp/selftest.$$.log | awk '{print $NF}')
    if [ $rc -eq 1 ]; then echo "caught   $m ($n obligations; first: $first)"; else echo "MISSED   $m (exit $rc)"; fail=1; fi
  done
done
# known findings double as canaries: without the known-findings file the check must raise the alarm
for p in $props; do
  if grep -q "^finding: property=$p " known_findings.txt 2>/dev/null; then
    ./check $p -timeout ${SELFTEST_TIMEOUT:-10} -no-evidence -known /dev/null > /tmp/selftest.$$.log 2>&1; rc=$?
    if [ $rc -eq 1 ]; then echo "caught   canary: known findings of $p are reported as violations when not listed"; else echo "MISSED   canary for $p (exit $rc)"; fail=1; fi
  fi
done
rm -f /tmp/selftest.$$.log
exit $fail
