#!/bin/sh
# tools/selftest.sh [prop ...]: every recorded mutant must make its property's check exit 1 (must-fail corpus), every
# recorded property-preserving edit (selftest/refactorings, must-pass corpus) must leave it at exit 0, and the
# known findings must be reported as violations when the known-findings file is empty (canary).
# Runs on scratch worktrees of /repo's HEAD under /tmp (removed afterwards), SELFTEST_JOBS in parallel, with a frozen
# copy of the govc binary, so /repo and /verif/out are not touched and work can go on meanwhile.
# Result lines go to stdout and to /verif/out/selftest.log.
export GOFLAGS=-mod=mod GOPROXY=off GOSUMDB=off GOTOOLCHAIN=local
if ! git -C /repo diff --quiet; then echo "REFUSING: /repo has uncommitted changes to tracked files (commit the contract files first)"; exit 9; fi
cd /verif
./setup.sh >/dev/null 2>&1 || { echo "TOOL-ERROR cannot build govc"; exit 2; }
props="$@"; [ -z "$props" ] && props=$(ls selftest/mutants)
jobs=${SELFTEST_JOBS:-4}
root=/tmp/selftest.$$; mkdir -p $root; cp bin/govc $root/govc
list=$root/list; : > $list
for p in $props; do
  for m in selftest/mutants/$p/*.patch; do [ -f "$m" ] && echo "$p $m" >> $list; done
  if grep -q "^finding: property=$p " known_findings.txt 2>/dev/null; then echo "$p CANARY" >> $list; fi
  for m in selftest/refactorings/$p/*.patch; do [ -f "$m" ] && echo "$p $m" >> $list; done
done
runcheck() { # <prop> <extra args...>: the property's checker (frozen govc binary, or the Python front end)
  p_="$1"; shift
  if grep -q '"front_end": "python"' "/verif/props/$p_.json" 2>/dev/null; then python3-vt /verif/pyvc/pyvc.py check -prop "$p_" -tier quick "$@"; else $root/govc check -prop "$p_" -tier quick "$@"; fi
}
worker() {
  w=$1; wt=$root/wt$w
  git -C /repo worktree add -q --detach $wt HEAD || exit 3
  i=0
  while read p m; do
    i=$((i+1)); [ $((i % jobs)) -eq $w ] || continue
    log=$root/log.$w
    if [ "$m" = CANARY ]; then
      GOVC_REPO=$wt GOVC_OUT=$root/out$w runcheck $p -timeout ${SELFTEST_TIMEOUT:-15} -no-evidence -known /dev/null > $log 2>&1; rc=$?
      if [ $rc -eq 1 ]; then echo "caught   canary: known findings of $p are reported as violations when not listed"; else echo "MISSED   canary for $p (exit $rc)"; fi
      continue
    fi
    git -C $wt apply "/verif/$m" || { echo "MUTANT-DOES-NOT-APPLY $m"; continue; }
    GOVC_REPO=$wt GOVC_OUT=$root/out$w runcheck $p -timeout ${SELFTEST_TIMEOUT:-15} -no-evidence > $log 2>&1; rc=$?
    case "$m" in selftest/refactorings/*) if [ $rc -ne 0 ]; then
      # the corpus runs SELFTEST_JOBS checks at once, each racing three solvers per obligation: a must-pass entry that
      # alarms is tried once more with the timeout of the registered quick tier before it counts as a false alarm
      GOVC_REPO=$wt GOVC_OUT=$root/out$w runcheck $p -timeout 30 -no-evidence > $log 2>&1; rc=$?
    fi;; esac
    git -C $wt checkout -q -- .
    n=$(grep -c '^VIOLATION' $log)
    first=$(grep -m1 'FAILED' $log | awk '{print $NF}')
    case "$m" in
      selftest/refactorings/*) # property-preserving edits (must-pass corpus): the check must stay quiet
        if [ $rc -eq 0 ]; then echo "quiet    $m (property-preserving edit: exit 0)"; else printf '%s\n' "FALSE-ALARM $m (exit $rc; first: $first)"; fi;;
      *) if [ $rc -eq 1 ]; then printf '%s\n' "caught   $m ($n obligations; first: $first)"; else echo "MISSED   $m (exit $rc)"; fi;;
    esac
  done < $list
  git -C /repo worktree remove --force $wt
}
w=0; while [ $w -lt $jobs ]; do worker $w > $root/res.$w & w=$((w+1)); done; wait
mkdir -p out; cat $root/res.* | sort -k2 > $root/all; cat $root/all
if [ -z "$*" ]; then cp $root/all out/selftest.log; else grep -v -F -f /dev/null out/selftest.log 2>/dev/null | while read l; do keep=1; for p in $props; do case "$l" in *"mutants/$p/"*|*"refactorings/$p/"*|*"of $p are"*|*"for $p "*) keep=0;; esac; done; [ $keep -eq 1 ] && echo "$l"; done > $root/old; cat $root/old $root/all | sort -k2 > out/selftest.log; fi
fail=0; grep -q "^MISSED\|^MUTANT-DOES-NOT-APPLY\|^FALSE-ALARM" $root/all && fail=1
total=$(grep -c "" $list); got=$(grep -c "" $root/all); [ "$total" -ne "$got" ] && { echo "TOOL-ERROR: $got results for $total entries"; fail=1; }
rm -rf $root; git -C /repo worktree prune
exit $fail
