#!/bin/sh
# tools/try_patch_wt.sh <prop> <patch.diff> [check args]: like try_patch.sh, but on a scratch worktree of /repo's HEAD
# (GOVC_REPO), so /repo itself is not touched and other checks can run meanwhile. The worktree is removed afterwards.
id="$1"; patch="$2"; shift 2
wt=/tmp/trywt.$$
git -C /repo worktree add -q --detach $wt HEAD || exit 3
git -C $wt apply "$patch" || { echo "patch does not apply"; git -C /repo worktree remove --force $wt; exit 3; }
(cd /verif && GOVC_REPO=$wt GOVC_OUT=/verif/out/try.$$ ./check "$id" -no-evidence "$@")
rc=$?
git -C /repo worktree remove --force $wt; rm -rf /verif/out/try.$$
echo "exit=$rc"
exit $rc
