#!/usr/bin/env python3
"""tools/keep_seed.py <name> <prop> <outdir> <needs> <detected_by> : stores a confirmed seeded change under /verif/seeded/<name>/"""
import sys, os, shutil, json, glob
name, prop, out, needs, detected = sys.argv[1:6]
d = f'/verif/seeded/{name}'
os.makedirs(d, exist_ok=True)
shutil.copy(f'{out}/patch.diff', d)
demos = []
for f in glob.glob(f'{out}/*'):
    b = os.path.basename(f)
    if b in ('patch.diff',) or b.endswith('.log'): continue
    shutil.copy(f, d); demos.append(b)
meta = {"property": prop, "breaks": open(f'/tmp/seed/prop-{prop}.txt').read().split('\n')[0], "needs_to_manifest": needs,
        "demonstration_files": demos,
        "confirmed": "tools/confirm_seed.sh in a scratch worktree: demonstration passes without the change, fails with it; existing tests of the module still pass with it (TestLLMTokensProcessor excluded: needs network, fails on the pinned tree too)",
        "check_result": detected, "origin": "independent sub-agent given only the property text and a scratch worktree"}
json.dump(meta, open(f'{d}/meta.json', 'w'), indent=1)
print(d, demos)
