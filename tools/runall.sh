#!/bin/sh
# tools/runall.sh: runs every claimed check (quick tier) and prints its exit code; non-zero if any is non-zero.
cd /verif; rc=0
# the unchanged tree is the reference for the rename tolerance: refresh the recorded variable lists first
[ -z "$(git -C /repo status --porcelain)" ] && tools/update_bindings.sh >/dev/null 2>&1
for p in $(python3 -c "import json;print(' '.join(c['property_id'] for c in json.load(open('MANIFEST.json'))['checks']))"); do
  ./check $p > out/last_$p.log 2>&1; r=$?; printf "%s exit=%s  %s\n" $p $r "$(tail -1 out/last_$p.log | cut -c1-150)"; [ $r -ne 0 ] && rc=1
done
exit $rc
