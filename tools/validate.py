#!/usr/bin/env python3-vt
import json, jsonschema, glob, sys
ok = True
try:
    jsonschema.validate(json.load(open('/verif/MANIFEST.json')), json.load(open('/root/.vp/MANIFEST.schema.json')))
except Exception as e:
    ok = False; print("MANIFEST:", e)
sch = json.load(open('/root/.vp/EVIDENCE.schema.json'))
for f in sorted(glob.glob('/verif/evidence/*.json')):
    try:
        ev = json.load(open(f)); jsonschema.validate(ev, sch)
        c = ev['coverage']
        print(f, 'ok', c.get('obligations'), c.get('discharged'), ev['wall_s'])
    except Exception as e:
        ok = False; print(f, "INVALID", str(e)[:300])
sys.exit(0 if ok else 1)
