#!/usr/bin/env python3
"""tools/gen_report.py: regenerates the generated block of DESIGN.md §11.6 from MANIFEST.json, evidence/*.json,
seeded/*/meta.json, selftest/mutants and the last selftest log (out/selftest.log)."""
import json, glob, os, re
V='/verif'
man=json.load(open(f'{V}/MANIFEST.json'))
out=[]
out.append('**Checks (quick tier on the unchanged tree; numbers from the last evidence files).**\n')
out.append('| id | functions under contract | obligations discharged | vacuity guards sat / all | known findings | solver s |')
out.append('|----|---|---|---|---|---|')
for c in man['checks']:
    pid=c['property_id']; ev=f'{V}/evidence/{pid}.json'
    if not os.path.exists(ev): continue
    e=json.load(open(ev)); cov=e['coverage']
    vg=cov.get('vacuity_guards') or {}
    kf=cov.get('known_findings_matched') or []
    out.append(f"| {pid} | {len(cov.get('functions_under_contract') or [])} | {cov.get('discharged')} / {cov.get('obligations')} | {vg.get('reachable','?')} / {vg.get('total','?')} | {len(kf)} | {cov.get('solver_seconds',0):.0f} |")
out.append('')
out.append('Not applicable: '+'; '.join(f"{n['property_id']} ({n['reason']})" for n in man.get('not_applicable',[]))+'\n')
out.append('**Seeded changes** (written by independent sub-agents that saw only the property text and a scratch worktree; each compiles, passes the existing tests, and has a demonstration that fails only with the change; kept under `/verif/seeded/<name>/`, never committed to /repo).\n')
out.append('| seeded change | needs, to manifest | result of the check |')
out.append('|---|---|---|')
for m in sorted(glob.glob(f'{V}/seeded/*/meta.json')):
    j=json.load(open(m)); name=os.path.basename(os.path.dirname(m))
    out.append(f"| `{name}` | {j['needs_to_manifest']} | {j['check_result']} |")
out.append('')
log=f'{V}/out/selftest.log'
res={}
if os.path.exists(log):
    for l in open(log):
        m=re.match(r'(caught|MISSED|missed)\s+selftest/mutants/(\w+)/(\S+)\.patch(?: \((\d+) obligations; first: (.*)\))?',l)
        if m: res[(m.group(2),m.group(3))]=(m.group(1),m.group(5) or '')
out.append('**Must-fail corpus** (`tools/selftest.sh`; every entry is a patch under `/verif/selftest/mutants/<id>/`; result of the last run, first failing obligation).\n')
out.append('| property | mutant | result | first failing obligation |')
out.append('|---|---|---|---|')
for pth in sorted(glob.glob(f'{V}/selftest/mutants/*/*.patch')):
    pid=os.path.basename(os.path.dirname(pth)); n=os.path.basename(pth)[:-6]
    r=res.get((pid,n),('not run since last change',''))
    out.append(f"| {pid} | `{n}` | {r[0]} | `{r[1]}` |")
out.append('')
p=f'{V}/DESIGN.md'; s=open(p).read()
a=s.index('<!-- BEGIN GENERATED (tools/gen_report.py) -->')+len('<!-- BEGIN GENERATED (tools/gen_report.py) -->')
b=s.index('<!-- END GENERATED -->')
s=s[:a]+'\n'+'\n'.join(out)+'\n'+s[b:]
open(p,'w').write(s)
print('DESIGN.md §11.6 regenerated:',len(res),'selftest results')
