#!/bin/sh
# tools/mkmutant.sh <prop> <name> <file-rel-to-repo> <sed-expr> : records a must-pass refactoring as a patch (repo left unchanged)
prop="$1"; name="$2"; file="$3"; expr="$4"
cd /repo || exit 2
sed -i "$expr" "$file"
if git diff --quiet -- "$file"; then echo "mutant $name: sed changed nothing"; exit 1; fi
mkdir -p /verif/selftest/refactorings/$prop
git diff -- "$file" > /verif/selftest/refactorings/$prop/$name.patch
git checkout -- "$file"
echo "recorded /verif/selftest/refactorings/$prop/$name.patch"
