#!/bin/sh
# tools/try_patch.sh <prop> <patch.diff> [check args]: apply a seeded change to /repo, run the check, undo.
if ! git -C /repo diff --quiet; then echo "REFUSING: /repo has uncommitted changes to tracked files (commit the contract files first)"; exit 9; fi
id="$1"; patch="$2"; shift 2
git -C /repo apply "$patch" || { echo "patch does not apply"; exit 3; }
(cd /verif && GOVC_OUT=/verif/out/try ./check "$id" -no-evidence "$@")
rc=$?
git -C /repo checkout -- . 
echo "exit=$rc"
exit $rc
