#!/bin/sh
# tools/update_bindings.sh: records, for the committed tree of /repo, the variables of every function under contract
# (bindings/<prop>.json, used by the rename tolerance of govc). Refuses when /repo has uncommitted changes.
cd /verif || exit 2
export GOFLAGS=-mod=mod GOPROXY=off GOSUMDB=off GOTOOLCHAIN=local
if [ -n "$(git -C /repo status --porcelain)" ]; then echo "REFUSING: /repo has uncommitted changes"; exit 9; fi
[ -x bin/govc ] || ./setup.sh >/dev/null 2>&1
for f in props/C*.json; do
  id=$(basename "$f" .json)
  grep -q '"front_end": "python"' "$f" && continue
  bin/govc check -prop "$id" -no-evidence -write-bindings -only __none__ >/dev/null 2>&1
done
ls bindings | wc -l
