#!/bin/sh
# replay of the C19 never-raises obligation against the real interceptor code of the tree under check
exec python3 /verif/replays-src/c19_ipv6_replay.py "${GOVC_REPO:-/repo}"
