#!/bin/bash
# tools/confirm_seed.sh <wt> <patch> <module-rel-dir> <pkg-pattern-for-existing-tests> <run-regex> <demo-file>:<dest-rel-to-wt> [...]
# Confirms in a scratch worktree: demo passes without the change, fails with it, existing tests pass with it.
export GOFLAGS=-mod=mod GOPROXY=off GOSUMDB=off GOTOOLCHAIN=local
wt="$1"; patch="$2"; mod="$3"; pkgs="$4"; run="$5"; shift 5
git -C "$wt" checkout -q -- . ; git -C "$wt" clean -fdq
demo_pkgs=""
for d in "$@"; do src="${d%%:*}"; dst="${d##*:}"; mkdir -p "$(dirname "$wt/$dst")"; cp "$src" "$wt/$dst"; demo_pkgs="$demo_pkgs ./$(dirname "${dst#$mod/}")"; done
cd "$wt/$mod"
echo "== demo WITHOUT change (expect pass)"; go test -vet=off -count=1 -timeout 120s -run "$run" $demo_pkgs 2>&1 | grep -E "^(--- FAIL|FAIL|ok|panic)" | cut -c1-200 | tail -3; r1=${PIPESTATUS[0]}
git -C "$wt" apply "$patch" || { echo "patch does not apply"; exit 3; }
echo "== demo WITH change (expect FAIL)"; go test -vet=off -count=1 -timeout 120s -run "$run" $demo_pkgs 2>&1 | grep -E "^(--- FAIL|FAIL|ok|panic)" | cut -c1-200| tail -4; r2=${PIPESTATUS[0]}
for d in "$@"; do dst="${d##*:}"; rm -f "$wt/$dst"; done
echo "== existing tests WITH change (expect pass, except TestLLMTokensProcessor)"
go test -vet=off -count=1 -timeout 600s $pkgs 2>&1 | grep -E "^(--- FAIL|FAIL|panic)" | grep -v "TestLLMTokensProcessor" | grep -v "^FAIL$" | grep -v "FAIL	lunar/engine/streams/processors	" | cut -c1-200 | head -20
git -C "$wt" checkout -q -- . ; git -C "$wt" clean -fdq
echo "demo_without=$r1 demo_with=$r2"
