#!/bin/bash
# Replays the C10 lost hand-off on the real code with an injected yield point (overlay only; /repo is not modified).
export GOFLAGS=-mod=mod GOPROXY=off GOSUMDB=off GOTOOLCHAIN=local
eng=/repo/proxy/src/services/lunar-engine
tmp=$(mktemp -d /tmp/verif-c10.XXXXXX); trap 'rm -rf "$tmp"' EXIT
python3 - "$eng/utils/queue/in_memory_delayed_priority_queue.go" "$tmp/dpq.go" <<'PY'
import sys
s=open(sys.argv[1]).read()
a="\tdpq.requestCounts[req.priority]++\n\n\tdpq.mutex.Unlock()\n"
assert a in s, "anchor not found"
open(sys.argv[2],"w").write(s.replace(a, a+'\tverifYield("enqueue:unlocked")\n')+"\nvar verifYield = func(string) {}\n")
PY
printf '{"Replace": {"%s/utils/queue/zz_verif_replay_test.go": "%s", "%s/utils/queue/in_memory_delayed_priority_queue.go": "%s"}}\n' "$eng" /verif/replays-src/c10_dpq_test.go "$eng" "$tmp/dpq.go" > "$tmp/ov.json"
cd "$eng" && go test -overlay "$tmp/ov.json" -vet=off -timeout 120s -count=1 -run TestReplayC10LostHandoff -v ./utils/queue 2>&1 | grep -E '^\s+zz_verif_replay_test|^(ok|FAIL|---|panic:)' | cut -c1-300
exit ${PIPESTATUS[0]}
