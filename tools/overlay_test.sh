#!/bin/bash
# tools/overlay_test.sh <module-dir-rel-to-repo> <pkg-rel> <test-file> <run-regex>
# Runs an in-package test against the real code of /repo without writing into /repo (go test -overlay).
export GOFLAGS=-mod=mod GOPROXY=off GOSUMDB=off GOTOOLCHAIN=local
mod="/repo/$1"; pkg="$2"; tf="$3"; run="$4"
tmp=$(mktemp -d /tmp/verif-ov.XXXXXX); trap 'rm -rf "$tmp"' EXIT
printf '{"Replace": {"%s/%s/zz_verif_replay_test.go": "%s"}}\n' "$mod" "$pkg" "$(readlink -f "$tf")" > "$tmp/ov.json"
cd "$mod" && go test -overlay "$tmp/ov.json" -vet=off -timeout 120s -count=1 -run "$run" -v "./$pkg" 2>&1 | grep -E '^\s+zz_verif_replay_test|^(ok|FAIL|---|panic:)|REPLAY' | cut -c1-300
exit ${PIPESTATUS[0]}
