#!/bin/bash
# tools/overlay_test.sh <module-dir-rel-to-repo> <pkg-rel> <test-file> <run-regex>
# Runs an in-package test against the real code of /repo (or of $GOVC_REPO, a scratch worktree) without adding the test
# file to the repository (go test -overlay). Files the repository's own test helpers write next to their sources during
# the run are removed again, tracked files they touch are restored.
export GOFLAGS=-mod=mod GOPROXY=off GOSUMDB=off GOTOOLCHAIN=local
root="${GOVC_REPO:-/repo}"
[ -d "$root/.git" ] || [ -f "$root/.git" ] || { echo "overlay_test: $root is not a git work tree"; exit 2; }
mod="$root/$1"; pkg="$2"; tf="$3"; run="$4"
tmp=$(mktemp -d /tmp/verif-ov.XXXXXX); trap 'rm -rf "$tmp"' EXIT
printf '{"Replace": {"%s/%s/zz_verif_replay_test.go": "%s"}}\n' "$mod" "$pkg" "$(readlink -f "$tf")" > "$tmp/ov.json"
git -C "$root" status --porcelain --untracked-files=all | sort > "$tmp/before"
cd "$mod" && go test -overlay "$tmp/ov.json" -vet=off -timeout ${OVERLAY_TIMEOUT:-60s} -count=1 -run "$run" -v "./$pkg" 2>&1 | grep -E '^\s+zz_verif_replay_test|^(ok|FAIL|---|panic:)|REPLAY' | cut -c1-300
rc=${PIPESTATUS[0]}
git -C "$root" status --porcelain --untracked-files=all | sort | comm -13 "$tmp/before" - > "$tmp/new"
while read -r st f; do
  [ -n "$f" ] || continue
  case "$st" in
    "??") (cd "$root" && rm -f -- "./$f");;
    M|MM) git -C "$root" checkout -q -- "$f";;
  esac
done < "$tmp/new"
exit $rc
