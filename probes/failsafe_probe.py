# C19 probes: load the two modules in isolation (the package __init__ imports aiohttp/yarl, not installed here).
import importlib.util, logging, sys, types
base = "/repo/interceptors/lunar-py-interceptor/lunar_interceptor/src/lunar_interceptor/interceptor/"
const = types.ModuleType("lunar_interceptor.interceptor.hooks.const"); const.LUNAR_PROXY_ERROR_TRANSLATOR = {}
for name in ["lunar_interceptor", "lunar_interceptor.interceptor", "lunar_interceptor.interceptor.hooks"]:
    sys.modules[name] = types.ModuleType(name)
sys.modules["lunar_interceptor.interceptor.hooks.const"] = const
def load(n):
    spec = importlib.util.spec_from_file_location(n, base + n + ".py"); m = importlib.util.module_from_spec(spec); spec.loader.exec_module(m); return m
fsm = load("fail_safe")
fs = fsm.FailSafe(cooldown_time=60, max_errors_allowed=2, logger=logging.getLogger("x"), handle_on=(fsm.ProxyErrorException,))
print("threshold used:", fs._max_errors_allowed, "(want 2) cooldown used:", fs._cooldown_time, "(want 60)")
for i in range(3):
    with fs:
        raise fsm.ProxyErrorException("e")
    print("after error", i + 1, "state_ok =", fs.state_ok)
tfm = load("traffic_filter")
tf = tfm.TrafficFilter(None, None, logging.getLogger("x"))
for h in ["::1", "2001:db8::1", "10.1.2.3", "8.8.8.8", "127.0.0.1"]:
    try:
        print(h, "->", tf.is_allowed(h, None))
    except Exception as e:
        print(h, "-> RAISED", type(e).__name__, e)
