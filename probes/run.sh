#!/bin/bash
# Design-phase probes against the real code. Nothing is written into /repo:
# test files (and, for C10 only, a one-line-patched copy of one source file) are
# injected with `go test -overlay`. Scratch lives in a mktemp dir that is removed.
set -u
export GOFLAGS=-mod=mod GOPROXY=off GOSUMDB=off GOTOOLCHAIN=local
here=$(cd "$(dirname "$0")" && pwd)
eng=/repo/proxy/src/services/lunar-engine
tmp=$(mktemp -d); trap 'rm -rf "$tmp"' EXIT
sed 's|\tdpq.mutex.Unlock()\n\n\t// Wait until|&|' "$eng/utils/queue/in_memory_delayed_priority_queue.go" > "$tmp/dpq.go"
python3 - "$tmp/dpq.go" <<'PY'
import sys
p=sys.argv[1]; s=open(p).read()
a="\tdpq.requestCounts[req.priority]++\n\n\tdpq.mutex.Unlock()\n"
assert a in s
open(p,"w").write(s.replace(a, a+'\tverifYield("enqueue:unlocked")\n')+"\nvar verifYield = func(string) {}\n")
PY
cat > "$tmp/ov.json" <<J
{"Replace": {
 "$eng/config/zz_probe_test.go": "$here/config_probe_test.go",
 "$eng/utils/obfuscation/zz_probe_test.go": "$here/obfuscation_probe_test.go",
 "$eng/streams/filter/zz_probe_test.go": "$here/filter_probe_test.go",
 "$eng/streams/processors/queue/zz_probe_test.go": "$here/queue_probe_test.go",
 "$eng/streams/zz_probe_test.go": "$here/streams_probe_test.go",
 "$eng/utils/queue/zz_probe_test.go": "$here/dpq_probe_test.go",
 "$eng/utils/queue/in_memory_delayed_priority_queue.go": "$tmp/dpq.go"
}}
J
cd "$eng" && PROBE_FLOWS_DIR="$here/c05flows" go test -overlay "$tmp/ov.json" -vet=off -timeout 300s -count=1 -run 'TestProbe' -v \
  ./config ./utils/obfuscation ./streams/filter ./streams/processors/queue ./streams ./utils/queue 2>&1 | grep -E '^\s+zz_probe_test|^(ok|FAIL|---)' | cut -c1-260
python3 "$here/failsafe_probe.py" 2>/dev/null
