package queue

import (
	"testing"
	"time"

	"lunar/toolkit-core/clock"
	"lunar/toolkit-core/logging"

	"github.com/rs/zerolog"
)

// C10: needs verifYield (see run.sh: a one-line-patched copy of
// in_memory_delayed_priority_queue.go is overlaid).
func TestProbeLostHandoff(t *testing.T) {
	mc := clock.NewMockClock()
	key := QueueKey{RemedyName: "r", Strategy: Strategy{WindowQuota: 1, WindowSize: time.Second}}
	dpq := NewInMemoryDelayedPriorityQueue(key, mc, logging.ContextLogger{Logger: zerolog.Nop()})
	ok, _ := dpq.Enqueue(NewRequest("first", 1, mc), 10*time.Second, 10)
	t.Logf("first (takes the window's only slot): %v", ok)

	hold := make(chan struct{})
	reached := make(chan struct{})
	verifYield = func(string) { close(reached); <-hold }
	res := make(chan bool)
	go func() {
		ok, _ := dpq.Enqueue(NewRequest("waiter", 1, mc), 10*time.Second, 10)
		res <- ok
	}()
	<-reached // waiter is in the heap, mutex released, not yet parked on doneCh
	for i := 0; i < 50; i++ {
		mc.AdvanceTime(100 * time.Millisecond)
		time.Sleep(2 * time.Millisecond)
		dpq.mutex.Lock()
		n := dpq.queue.Len()
		c := dpq.currentWindowCounter
		dpq.mutex.Unlock()
		if n == 0 {
			t.Logf("after %d ms: heap empty, window counter=%d (slot free), waiter not yet parked", (i+1)*100, c)
			break
		}
	}
	close(hold)
	for i := 0; i < 200; i++ {
		mc.AdvanceTime(100 * time.Millisecond)
		time.Sleep(time.Millisecond)
		select {
		case ok := <-res:
			t.Logf("waiter returned %v after ~%d ms of mock time (want true within ~1 s: TTL 10 s, window 1 s)", ok, (i+1)*100)
			return
		default:
		}
	}
}
