package processorqueue

import (
	"testing"
	"time"

	lunar_messages "lunar/engine/messages"
	lunar_context "lunar/engine/streams/lunar-context"
	public_types "lunar/engine/streams/public-types"
	stream_types "lunar/engine/streams/types"

	"github.com/rs/zerolog"
)

func mkStream(id string) public_types.APIStreamI {
	return stream_types.NewRequestAPIStream(lunar_messages.OnRequest{ID: id, SequenceID: id, Method: "GET", URL: "a.com/x", Headers: map[string]string{}}, lunar_context.NewMemoryState[[]byte]())
}

// C06 (1): StopAll signals a request that was already answered.
func TestProbeStopAll(t *testing.T) {
	defer func() { t.Logf("recovered: %v (want <nil>)", recover()) }()
	w := NewRequestsWatcher(time.Hour, zerolog.Nop())
	r := NewRequest(1, time.Hour, mkStream("x"))
	w.AddRequest(r)
	if !r.StartProcessing() {
		t.Fatal("start")
	}
	r.SetProcessedSuccess()
	t.Logf("wait -> %v", r.Wait())
	w.StopAll() // still in the watch map: removal is asynchronous in the processor
	t.Log("no panic")
}

// C06 (2): re-enqueue of a blocked head request refreshes its arrival stamp.
func TestProbeArrivalOrder(t *testing.T) {
	q := lunar_context.NewMemoryQueue("k", time.Hour)
	_ = q.Enqueue("A", 1)
	time.Sleep(2 * time.Millisecond)
	_ = q.Enqueue("B", 1)
	first := q.DequeueIfValueRelevant()
	time.Sleep(2 * time.Millisecond)
	_ = q.Enqueue(first, 1) // what processQueueItem does when the quota blocks
	t.Logf("popped first=%s, after re-enqueue next=%s (arrival order A,B; want A)", first, q.DequeueIfValueRelevant())
}
