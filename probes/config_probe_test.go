package config

// Design-phase probes for C08 (Restore) and C13 (policy-tree aliasing).
// Injected with `go test -overlay`; see run.sh. Not part of the framework.

import (
	"os"
	"path/filepath"
	"testing"

	sharedConfig "lunar/shared-model/config"
)

func TestProbeRestore(t *testing.T) {
	dir := t.TempDir()
	f := filepath.Join(dir, "a.yaml")
	os.WriteFile(f, []byte("OLD"), 0o644)
	fs := &FileSystemOperation{
		directories: map[string]string{"flows": dir},
		files:       map[string]string{},
		backUp:      newFileSystemBackUp(),
	}
	if err := fs.Backup(); err != nil {
		t.Fatal(err)
	}
	os.WriteFile(f, []byte("NEW"), 0o644)
	os.WriteFile(filepath.Join(dir, "b.yaml"), []byte("ADDED"), 0o644)
	if err := fs.Restore(); err != nil {
		t.Fatal(err)
	}
	b, _ := os.ReadFile(f)
	_, errB := os.Stat(filepath.Join(dir, "b.yaml"))
	t.Logf("after restore a.yaml=%q (want OLD) b.yaml exists=%v (want false)", string(b), errB == nil)
}

func TestProbePolicyTreeAlias(t *testing.T) {
	eps := []sharedConfig.EndpointConfig{
		{URL: "a.com/*", Method: "GET", Remedies: []sharedConfig.Remedy{{Name: "R1", Enabled: true}}},
		{URL: "a.com/x", Method: "POST", Remedies: []sharedConfig.Remedy{{Name: "R2", Enabled: true}}},
	}
	tree, err := BuildEndpointPolicyTree(eps)
	if err != nil {
		t.Fatal(err)
	}
	r := tree.Lookup("a.com/y")
	if r.Value != nil {
		for m, p := range *r.Value {
			t.Logf("lookup a.com/y -> norm=%s method=%s policyURL=%s (want only GET a.com/*)", r.NormalizedURL, m, p.URL)
		}
	}
}
