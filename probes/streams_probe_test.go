package streams

import (
	"fmt"
	"os"
	"testing"

	lunar_messages "lunar/engine/messages"
	stream_config "lunar/engine/streams/config"
	test_processors "lunar/engine/streams/flow/test-processors"
	public_types "lunar/engine/streams/public-types"
	stream_types "lunar/engine/streams/types"
)

type countingProc struct {
	name string
	n    *int
}

func (p *countingProc) GetName() string { return p.name }
func (p *countingProc) GetRequirement() *stream_types.ProcessorRequirement {
	return &stream_types.ProcessorRequirement{}
}
func (p *countingProc) Execute(_ string, s public_types.APIStreamI) (stream_types.ProcessorIO, error) {
	*p.n++
	if *p.n > 5000 {
		return stream_types.ProcessorIO{}, fmt.Errorf("probe: %d processor executions for one transaction - unbounded", *p.n)
	}
	out := ""
	if p.name == "readCache" {
		out = "cache_hit"
	}
	return stream_types.ProcessorIO{Type: public_types.StreamTypeAny, Name: out}, nil
}

// C05: accepted flow; response direction has a root plus a cycle reachable only
// through the early-response key. PROBE_FLOWS_DIR points at c05flows.
func TestProbeC05(t *testing.T) {
	n := 0
	counting := func(md *stream_types.ProcessorMetaData) (stream_types.ProcessorI, error) {
		return &countingProc{name: md.Name, n: &n}, nil
	}
	procMng := createTestProcessorManagerWithFactories(t,
		[]string{"readCache", "generateResponse", "LogAPM", "writeCache", "processor3"},
		counting, test_processors.NewMockGenerateResponseProcessor, counting, counting, counting)
	stream, err := NewStream()
	if err != nil {
		t.Fatal(err)
	}
	stream.processorsManager = procMng
	defer revertFlowRepDirectory(setFlowRepDirectory(os.Getenv("PROBE_FLOWS_DIR")))
	err = stream.Initialize()
	t.Logf("Initialize (validation included) -> err=%v", err)
	if err != nil {
		return
	}
	apiStream := stream_types.NewAPIStream("n", public_types.StreamTypeRequest, sharedState)
	// SetRequest last: SetResponse turns the stream into a response stream
	apiStream.SetResponse(stream_types.NewResponse(lunar_messages.OnResponse{Status: 200, URL: "cycle.example.com/x"}))
	apiStream.SetRequest(stream_types.NewRequest(lunar_messages.OnRequest{Method: "GET", Scheme: "https", URL: "cycle.example.com/x", Headers: map[string]string{}}))
	acts := &stream_config.StreamActions{Request: &stream_config.RequestStream{}, Response: &stream_config.ResponseStream{}}
	err = stream.ExecuteFlow(apiStream, acts)
	msg := ""
	if err != nil {
		msg = err.Error()
		if len(msg) > 120 {
			msg = msg[len(msg)-120:]
		}
	}
	t.Logf("ExecuteFlow -> executions=%d (want a small bounded number) err=...%s", n, msg)
}
