package obfuscation

import "testing"

type idH struct{}

func (idH) HashBytes(b []byte) string { return "H(" + string(b) + ")" }

// C16: an exclusion for .user.name must not expose the top-level "name".
func TestProbeObf(t *testing.T) {
	o := Obfuscator{Hasher: idH{}}
	doc := `{"name":"top-secret","user":{"name":"bob","age":3}}`
	for _, ex := range []string{"$.request.body.user.name", ".user.name"} {
		out, err := o.ObfuscateJSON(doc, []string{ex})
		t.Logf("exclusion %q -> %s %v", ex, out, err)
	}
}
