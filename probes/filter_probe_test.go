package streamfilter

import (
	"testing"

	lunar_messages "lunar/engine/messages"
	stream_config "lunar/engine/streams/config"
	stream_flow "lunar/engine/streams/flow"
	lunar_context "lunar/engine/streams/lunar-context"
	public_types "lunar/engine/streams/public-types"
	stream_types "lunar/engine/streams/types"
)

// C03: F1 (no method) and F2 (GET) on one URL; POST request; both load orders.
func TestProbeFirstFlowShortcut(t *testing.T) {
	for _, order := range [][2]int{{0, 1}, {1, 0}} {
		f1 := &stream_config.Filter{Name: "F1", URL: "api.x.com/p"}
		f2 := &stream_config.Filter{Name: "F2", URL: "api.x.com/p", Method: []string{"GET"}}
		flows := []*stream_flow.Flow{
			stream_flow.NewFlow(nil, &stream_config.FlowRepresentation{Name: "F1", Filter: f1}, nil),
			stream_flow.NewFlow(nil, &stream_config.FlowRepresentation{Name: "F2", Filter: f2}, nil),
		}
		tree := NewFilterTree()
		tree.AddFlow(flows[order[0]])
		tree.AddFlow(flows[order[1]])
		s := stream_types.NewAPIStream("n", public_types.StreamTypeRequest, lunar_context.NewMemoryState[[]byte]())
		s.SetRequest(stream_types.NewRequest(lunar_messages.OnRequest{Method: "POST", Scheme: "https", URL: "api.x.com/p", Headers: map[string]string{}}))
		s.SetContext(lunar_context.NewLunarContext(lunar_context.NewContext()))
		res, found := tree.GetFlow(s)
		names := []string{}
		if found {
			uf, _ := res.GetUserFlow()
			for _, f := range uf {
				names = append(names, f.GetName())
			}
		}
		t.Logf("order=%v POST -> flows=%v (want [F1] in both orders)", order, names)
	}
}
